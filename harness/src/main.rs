//! `hm` — harness binary for configuration A (helgoboss-midi with default features, mock clock
//! hook ON). Usage: hm <ID> [--tier quick|thorough]   |   hm replay <file>
#[path = "../../common/midi.rs"]
mod midi;
#[path = "../../common/msgs.rs"]
mod msgs;
#[path = "../../common/ints.rs"]
mod ints;
#[path = "../../common/scan.rs"]
mod scan;
#[path = "../../common/cc14.rs"]
mod cc14;
#[path = "../../common/nrpn.rs"]
mod nrpn;
#[path = "../../common/polling.rs"]
mod polling;
#[path = "../../common/iso.rs"]
mod iso;
#[path = "../../common/misc.rs"]
mod misc;
#[path = "../../common/conform.rs"]
mod conform;
#[path = "../../common/grammar.rs"]
mod grammar;
#[path = "../../common/rt.rs"]
mod rt;
#[path = "../../common/race.rs"]
mod race;
#[path = "../../common/xt.rs"]
mod xt;

/// Configuration-specific part of C18: the scanner products, whose every feed/poll/reset runs in
/// an allocation-counting region, explored to their fixpoints with all oracles off.
pub fn c18_extra(chk: &Check, _tier: Tier, heavy: &std::sync::atomic::AtomicU64) {
    use std::sync::atomic::Ordering;
    use xs::{engine, Limits};
    let lim = Limits { restoration_check: false, ..Default::default() };
    let v3 = [0u8, 1, 127];
    scan::API_ALLOCS.store(0, Ordering::Relaxed);
    let sys = cc14::c08_system("C18", 2, scan::Report { alloc: true, ..Default::default() }, &v3);
    let out = xs::explore(&sys, &lim);
    engine::record(chk, &sys, &out, None);
    heavy.fetch_add(out.transitions + out.probes, Ordering::Relaxed);
    let sys = nrpn::c11_system("C18", 2, scan::Report { alloc: true, ..Default::default() }, &v3, true);
    let out = xs::explore(&sys, &lim);
    engine::record(chk, &sys, &out, None);
    heavy.fetch_add(out.transitions + out.probes, Ordering::Relaxed);
    for t in [0u64, 2] {
        let mut sys = polling::PollSys::new("C18", 2, t, 1, &v3, false, polling::PReport { alloc: true, ..Default::default() });
        if t == 0 {
            sys = sys.with_pumps(2);
        }
        let out = xs::explore(&sys, &lim);
        engine::record(chk, &sys, &out, None);
        heavy.fetch_add(out.transitions + out.probes, Ordering::Relaxed);
    }
    // time passing DURING a call: after every reading the scanner takes, the mock clock moves on by
    // 1, 2 or 5 ticks (timeouts of 2 and 5 ticks). No output oracle here - only "no panic, no
    // allocation" - so that code which reads the clock more than once per call is not judged for
    // the instants it sees; what it must not do is fall over (e.g. subtract a later reading from an
    // earlier deadline)
    for (t, adv) in [(2u64, 1u64), (2, 2), (5, 2), (2, 5)] {
        let mut sys = polling::PollSys::new("C18", 2, t, 1, &[1], false, polling::PReport { alloc: true, ..Default::default() });
        sys.advance = adv;
        sys.pauses = vec![(1 << 20) + 100];
        let out = xs::explore(&sys, &lim);
        engine::record(chk, &sys, &out, None);
        heavy.fetch_add(out.transitions + out.probes, Ordering::Relaxed);
    }
    let mut sys = iso::IsoSys::<helgoboss_midi::PollingParameterNumberMessageScanner>::new(1, 9, 2, false);
    sys.pid = "C18";
    let out = xs::explore(&sys, &lim);
    engine::record(chk, &sys, &out, None);
    heavy.fetch_add(out.transitions, Ordering::Relaxed);
    let a = scan::API_ALLOCS.load(Ordering::Relaxed);
    chk.set("allocations_inside_scanner_calls_during_fixpoints", serde_json::json!(a));
    if a > 0 {
        chk.violate(xs::Violation::new("no-heap-allocation", format!("C18/allocates/scanner-fixpoints/{}", chk.part), format!("{} heap allocation(s) inside feed/poll/reset calls made during the scanner fixpoints", a)));
    }
}

use xs::{Check, Tier};

/// Cross-target transcript of this (native, hooked) build, for the foreign-target parts to match.
fn record_xt(chk: &Check, id: &str) {
    if let Some((h, calls)) = xt::transcript(id) {
        chk.add_eval(calls);
        chk.set("cross_target_transcript", serde_json::json!({"hash": format!("{:016x}", h), "calls": calls, "what": "hash over every result of a fixed exhaustive family of small histories / boundary inputs (common/xt.rs); the parts run under Miri for i686 and s390x must reproduce it"}));
    }
}

#[global_allocator]
static ALLOC: xs::alloc::Counting = xs::alloc::Counting;

pub const PART: &str = "std";

pub fn polling_pause_depth() -> u32 {
    polling::PAUSE_DEPTH
}

fn main() {
    xs::silence_panics();
    let args: Vec<String> = std::env::args().collect();
    if args.len() >= 3 && args[1] == "unwind-probe" {
        msgs::unwind_probe_child(&args[2]);
    }
    if args.len() >= 3 && args[1] == "race-probe" {
        race::race_child(&args[2]);
    }
    if args.len() < 2 {
        eprintln!("usage: hm <ID> [--tier quick|thorough] | hm replay <file>");
        std::process::exit(2);
    }
    let mut tier = std::env::var("VERIF_TIER").ok().and_then(|t| Tier::parse(&t)).unwrap_or(Tier::Quick);
    let mut i = 2;
    while i < args.len() {
        if args[i] == "--tier" && i + 1 < args.len() {
            tier = Tier::parse(&args[i + 1]).unwrap_or_else(|| {
                eprintln!("bad tier");
                std::process::exit(2)
            });
            i += 1;
        }
        i += 1;
    }
    let id = args[1].as_str();
    scan::WRAP16.store(tier == Tier::Thorough, std::sync::atomic::Ordering::Relaxed);
    if tier == Tier::Quick {
        // per-exploration wall cap of the quick tier (reported as a cap, never as a verdict)
        std::env::set_var("XS_MAX_WALL_S", "120");
        std::env::set_var("XS_MAX_STATES", "3000000");
    }
    let code = match id {
        "C01" => {
            let chk = Check::new("C01", PART, tier, "exploration");
            msgs::run_c01(&chk);
            record_xt(&chk, "C01");
            chk.finish()
        }
        "C02" => {
            if cfg!(debug_assertions) {
                // part std-debug: only the concurrent-use SAMPLING probe, in an unoptimised build
                // (race windows are an order of magnitude wider there)
                let chk = Check::new("C02", "std-debug", tier, "exploration");
                chk.rule("unoptimised build: concurrent-use sampling only (child processes x 16 free-running threads classifying and encoding against the table oracle); supplementary, no coverage claim");
                race::race_probe(&chk, "C02", if tier == Tier::Thorough { 400 } else { 40 });
                chk.sample(serde_json::json!({"process": "16 threads released together, staggered by 0..200 spin iterations per thread index", "first_calls": "classification of the system messages 0xF1..0xFF"}));
                chk.finish()
            } else {
                let chk = Check::new("C02", PART, tier, "exploration");
                msgs::run_c02(&chk);
                record_xt(&chk, "C02");
                race::race_probe(&chk, "C02", if tier == Tier::Thorough { 400 } else { 40 });
                chk.finish()
            }
        }
        "C03" => {
            let chk = Check::new("C03", PART, tier, "exploration");
            msgs::run_c03_sweep(&chk);
            record_xt(&chk, "C03");
            misc::run_c03_scanners(&chk, tier);
            chk.finish()
        }
        "C04" => {
            let chk = Check::new("C04", PART, tier, "exploration");
            ints::run_c04(&chk, tier);
            chk.finish()
        }
        "C05" => {
            let chk = Check::new("C05", PART, tier, "exploration");
            ints::run_c05(&chk, tier);
            chk.finish()
        }
        "C06" => {
            let chk = Check::new("C06", PART, tier, "exploration");
            msgs::run_c06(&chk);
            record_xt(&chk, "C06");
            chk.finish()
        }
        "C07" => {
            let chk = Check::new("C07", PART, tier, "model_checking");
            cc14::run_c07(&chk, tier);
            record_xt(&chk, "C07");
            chk.finish()
        }
        "C08" => {
            let chk = Check::new("C08", PART, tier, "model_checking");
            cc14::run_c08(&chk, tier);
            record_xt(&chk, "C08");
            chk.finish()
        }
        "C09" => {
            let chk = Check::new("C09", PART, tier, "exploration");
            nrpn::run_c09(&chk, tier);
            record_xt(&chk, "C09");
            race::race_probe(&chk, "C09", if tier == Tier::Thorough { 400 } else { 40 });
            chk.finish()
        }
        "C10" => {
            let chk = Check::new("C10", PART, tier, "model_checking");
            nrpn::run_c10(&chk, tier);
            chk.finish()
        }
        "C11" => {
            let chk = Check::new("C11", PART, tier, "model_checking");
            nrpn::run_c11(&chk, tier);
            record_xt(&chk, "C11");
            chk.finish()
        }
        "C12" => {
            let chk = Check::new("C12", PART, tier, "model_checking");
            grammar::run_c12(&chk, tier);
            chk.finish()
        }
        "C13" => {
            let chk = Check::new("C13", PART, tier, "model_checking");
            polling::run_c13(&chk, tier);
            record_xt(&chk, "C13");
            chk.finish()
        }
        "C14" => {
            let chk = Check::new("C14", PART, tier, "model_checking");
            polling::run_c14(&chk, tier);
            chk.finish()
        }
        "C15" => {
            let chk = Check::new("C15", PART, tier, "model_checking");
            iso::run_c15(&chk, tier);
            chk.finish()
        }
        "C16" => {
            let chk = Check::new("C16", PART, tier, "model_checking");
            misc::run_c16(&chk, tier);
            chk.finish()
        }
        "C17" => {
            let chk = Check::new("C17", PART, tier, "model_checking");
            misc::run_c17(&chk, tier);
            chk.finish()
        }
        "C18" => {
            let part = if cfg!(debug_assertions) { "std-debug" } else { PART };
            let chk = Check::new("C18", part, tier, "exploration");
            rt::run_c18(&chk, tier);
            chk.finish()
        }
        _ => {
            eprintln!("unknown check {}", id);
            2
        }
    };
    std::process::exit(code);
}
