#!/usr/bin/env python3
"""mkmutant.py <name> <file-in-repo> <old> <new> [<file> <old> <new> ...]: writes /verif/mutants/<name>.diff
(the change is made in the scratch worktree /tmp/wt/mine, diffed, and undone straight away)."""
import subprocess, sys
REPO = '/tmp/wt/mine'  # a scratch worktree of /repo, never /repo itself
name = sys.argv[1]
trip = sys.argv[2:]
assert len(trip) % 3 == 0
files = []
for i in range(0, len(trip), 3):
    f, old, new = trip[i:i+3]
    p = REPO + '/' + f
    s = open(p).read()
    assert s.count(old) >= 1, "pattern not found in %s: %r" % (f, old)
    s = s.replace(old, new, 1)
    open(p, 'w').write(s)
    files.append(f)
d = subprocess.run(['git', '-C', REPO, 'diff'], stdout=subprocess.PIPE, text=True).stdout
open('/verif/mutants/%s.diff' % name, 'w').write(d)
subprocess.run(['git', '-C', REPO, 'checkout', '--'] + files, check=True)
print('wrote mutants/%s.diff (%d lines)' % (name, d.count('\n')))
