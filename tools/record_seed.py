#!/usr/bin/env python3
"""record_seed.py: copy confirmed sub-agent changes from their scratch worktrees into /verif/seeded/<id>/
with a meta.json. The table below is maintained by hand from the output of tools/eval_seed.sh."""
import json, os, shutil, sys
RAN = ("tools/eval_seed.sh {prop} {n} {checks}: in the scratch worktree /tmp/wt/{prop} - demo on the clean tree (passes), "
       "`cargo test --workspace --no-fail-fast --offline` with the change (64+2+8 pass), demo with the change (fails), "
       "then `VERIF_REPO=/tmp/wt/{prop} ./check <ID> --tier quick` for each listed check (shadow build against the changed worktree; /repo untouched)")
SEEDS = {
 # id: (property, n, summary, needs, caught_by, not_caught_by (with reason), note)
 "C01-1": ("C01", 1, "quarter-frame decoder drops the mask on the reserved bit of a 'last' frame; from_bytes panics", "status 0xF1 with data byte 1 in 0x78..=0x7F", ["C01"], {}, ""),
 "C01-2": ("C01", 2, "RawShortMessage::from_bytes_unchecked zeroes the data bytes of System Real Time messages", "status 0xF8..=0xFF with a non-zero data byte, observed on the raw type", ["C01"], {}, ""),
 "C02-1": ("C02", 1, "Channel Mode decided by `> ALL_SOUND_OFF` (off by one, controller 120)", "Control Change with controller number exactly 120", ["C02"], {"C16": "not a C16 matter (the predicate is not one of the three C16 names)"}, "this re-introduces defect D3"),
 "C02-2": ("C02", 2, "StructuredShortMessage overrides type() with a table that maps SystemCommonUndefined2 to ...1", "status 0xF5 held as StructuredShortMessage", ["C02", "C03"], {}, ""),
 "C03-1": ("C03", 1, "merged match arm: structured ChannelPressure reports its pressure in data byte 2 as well", "ChannelPressure with non-zero pressure held as structured, observed at byte level", ["C03", "C01"], {}, ""),
 "C03-2": ("C03", 2, "RawShortMessage overrides channel() with `status > 0xF0` instead of `>=`", "status byte exactly 0xF0 held as RawShortMessage", ["C03", "C02"], {}, ""),
 "C04-1": ("C04", 1, "`new` range check gated by cfg(no_std) (never set): no check without the std feature", "build with --no-default-features and an out-of-range argument", ["C04", "C18"], {}, "this re-introduces defect D1 in another shape"),
 "C04-2": ("C04", 2, "hand-written TryFrom<U14> for U7 tests `>> 8` instead of `>> 7`", "U14 values 128..=255 through that one newtype-to-newtype conversion", ["C04", "C05"], {}, ""),
 "C05-1": ("C05", 1, "FromStr parses through i32 and TryFrom<i32>: negative zero accepted", "strings '-0', '-00', ...", ["C05", "C04"], {}, ""),
 "C05-2": ("C05", 2, "TryFrom<primitive> widens with `as i64` first: u128/i128 sources truncated", "128-bit source with magnitude >= 2^63 whose low 64 bits are in range", ["C05", "C04"], {}, "found by the truncation alphabet of the quick tier"),
 "C06-1": ("C06", 1, "ShortMessageType::super_type rewritten with ranges, System Common arm ends at 0xF6", "SystemExclusiveEnd passed to system_common_message / system_real_time_message", ["C06", "C02"], {}, ""),
 "C06-2": ("C06", 2, "channel_pressure passes the pressure as data byte 2 as well", "RawShortMessage (or third-party) factory, non-zero pressure, byte-level observation", ["C06"], {"C01": "from_bytes paths are unaffected; the statement broken is C06's"}, ""),
 "C07-1": ("C07", 1, "14-bit CC scanner suppresses controller 6/38 pairs once any CC 98-101 was seen on the channel; flag only cleared by reset", "history with a CC 98..101 on the channel, then a message with MSB controller 6", ["C07", "C08", "C16"], {}, "MISSED by C07 and C08 at first (caught only by C16): the fixpoints expanded only contributing controllers, so the prior state was unreachable. Fixed by expanding a representative non-contributing alphabet (every non-contributing controller number + one message per other type) in every scanner fixpoint."),
 "C07-2": ("C07", 2, "corresponding_14_bit_lsb_controller_number uses `> BANK_SELECT_LSB`: controller 32 accepted", "constructor called with MSB controller number exactly 32", ["C07", "C16"], {}, ""),
 "C08-1": ("C08", 1, "stored MSB value cleared after a matching LSB was reported", "MSB, LSB (reported), LSB again without a new MSB", ["C08"], {"C07": "the encoder's two-message sequences never repeat an LSB"}, ""),
 "C08-2": ("C08", 2, "reset() only resets channels marked 'in progress'; a report clears the mark", "MSB, LSB (reported), reset(), LSB on one channel", ["C08", "C17"], {}, "took 530 s at first (thousands of real states under one model key); the engine now indexes long key buckets by a fine fingerprint (62 s)"),
 "C09-1": ("C09", 1, "data entry MSB byte chosen by `value > 127` instead of is_14_bit", "14-bit message with value 1..=127", ["C09", "C10"], {}, ""),
 "C09-2": ("C09", 2, "MSB-first encoding omits the controller-38 slot when the low 7 bits are zero", "14-bit message whose value is a multiple of 128, MSB-first order or array conversion", ["C09"], {}, ""),
 "C10-1": ("C10", 1, "number bytes reset the stored value LSB only when number half or kind changes (two cooperating sites)", "14-bit message, then a 7-bit message for the same channel/number/kind", ["C10", "C11"], {}, ""),
 "C10-2": ("C10", 2, "encoder: data entry MSB byte chosen by `value > 127` (same slip as C09-1, found independently)", "14-bit message with value 1..=127", ["C10", "C09"], {}, ""),
 "C11-1": ("C11", 1, "parameter number cached in a new field that reset() does not clear", "complete number, reset(), then CC 6/96/97 before any number byte", ["C11", "C17"], {}, ""),
 "C11-2": ("C11", 2, "value LSB consumed (`take()`) by the first data entry MSB", "number, CC 38, CC 6, CC 6 again", ["C11"], {"C10": "documented running forms always pair LSB,MSB"}, ""),
 "C12-1": ("C12", 1, "MSB-after-MSB keeps the first MSB's arrival time (struct update syntax)", "timeout > 0, two MSBs, poll in the window between the two deadlines", ["C12", "C13"], {}, ""),
 "C12-2": ("C12", 2, "after an LSB-first pair the retained MSB/LSB are stored swapped; only the fine-adjustment branch reads them", "x, y, LSB, MSB, LSB with MSB != LSB", ["C12", "C14"], {}, ""),
 "C13-1": ("C13", 1, "same slip as C12-1, found independently", "timeout > 0, MSB, MSB, poll before the second deadline", ["C13", "C12"], {}, ""),
 "C13-2": ("C13", 2, "poll returns early via `?` for an unpaired LSB and never leaves the pending state", "number, CC 38, poll after the timeout, CC 6", ["C13"], {"C14": "a 14-bit built from the latest controller-6 and -38 bytes satisfies C14 read literally; the clause broken is C13's"}, ""),
 "C14-1": ("C14", 1, "flush on re-selection carries the registered flag of the flushing number byte", "pending data entry MSB, then a number byte of the other kind", ["C14", "C12"], {}, ""),
 "C15-1": ("C15", 1, "a single 'value pending' flag on the outer polling scanner, cleared when any channel's poll delivers", "two channels with a pending MSB at once; poll one successfully, then poll the other", ["C15"], {}, ""),
 "C15-2": ("C15", 2, "14-bit CC scanner filters on `status & 0xB0` (wrong mask): system messages act as Control Changes on channel = low nibble", "a system message whose low nibble equals an active channel, between MSB and LSB or with data byte 1 = matching LSB controller", ["C15", "C16"], {}, ""),
 "C16-1": ("C16", 1, "Control Changes 120-127 reset the 14-bit CC sub-scanner", "pending MSB, then CC 120..127 on the same channel, then the LSB", ["C16", "C08"], {}, "C08 catches it too since non-contributing traffic is now expanded in its fixpoint"),
 "C16-2": ("C16", 2, "unrelated Control Changes call poll() on the polling scanner", "value pending and timeout elapsed, then an unrelated CC on the channel before any poll", ["C16", "C14"], {}, ""),
 "C17-1": ("C17", 1, "14-bit scanner reset() loops 0..Channel::MAX (exclusive): channel 15 never reset", "pre-reset MSB on channel 15", ["C17", "C08"], {}, "needs channel 15 to be among the explored channels (it is, in both tiers)"),
 "C17-2": ("C17", 2, "polling per-channel reset assigns Default to the whole sub-scanner, zeroing the timeout", "scanner created with a non-zero timeout, then reset()", ["C17", "C13"], {}, ""),
 "C18-1": ("C18", 1, "inc/dec while an MSB is pending collects its results in a Vec", "number, CC 6, CC 96/97 on the polling scanner, observed under a counting allocator in an unoptimised build", ["C18"], {}, "reported with the 4-step trace since allocations are now attributed to the transition"),
 "C18-2": ("C18", 2, "same slip as C01-1 (quarter-frame reserved bit), found independently: to_structured panics", "status 0xF1 with data byte 0x78..=0x7F", ["C18", "C01"], {}, ""),
 "C19-1": ("C19", 1, "hand-written TryFrom<u16> for U14 masks with !0x7fff: 16384..=32767 accepted", "serde feature and a raw value with bit 14 set", ["C19", "C04"], {}, ""),
 "C19-2": ("C19", 2, "deserialisation guard `value <= 127` only on the (7-bit, DataEntry) arm", "is_14_bit=false, data type increment/decrement, value > 127", ["C19"], {}, ""),
 "C08-a1": ("C08", 1, "O(1) reset through a wrapping u16 counter, hand-written PartialEq over the effective progress", "an MSB, then exactly 65536 resets, then the matching LSB", ["C08", "C17"], {}, "MISSED at first. Now: reset-storm actions (256 / 65536 resets in one step, with and without traffic on another channel) near the initial state; C17 additionally compares the BEHAVIOUR of the reset scanner with a new one over all continuations of length <= 3, because a hand-written PartialEq makes reset()==new() vacuous", "SEED2"),
 "C08-a2": ("C08", 2, "channel selected with a 3-bit mask in a status-byte fast path: channels c and c+8 share a slot", "two channels differing by exactly 8 in interleaved use", ["C15"], {"C08": "single-channel behaviour is correct on all 16 channels; the defect is an isolation defect"}, "", "SEED2"),
 "C11-a1": ("C11", 1, "per-channel `channel` field filled by new() but not by the derived Default", "scanner created through Default and traffic on a channel other than 0", ["C11", "C17"], {}, "the products create their scanners through Default, and C17 compares new() with default()", "SEED2"),
 "C11-a2": ("C11", 2, "lazy reset through a u16 generation counter (derived PartialEq)", "progress on a channel, 65536 resets without touching it, then a data byte", ["C11", "C17"], {}, "MISSED at first (and the search exploded: every reset made a new state). Now caught through the reset storm; explorations stop early once a violation is known", "SEED2"),
 "C12-a1": ("C12", 1, "timeout compared in whole milliseconds (as_millis on both sides)", "a timeout with a sub-millisecond part and a poll between floor(T) and T", ["C12", "C13"], {}, "MISSED at first: all explored timeouts were whole milliseconds. Now a 1.5 ms timeout is explored as well (the mock clock still ticks in ms)", "SEED2"),
 "C12-a2": ("C12", 2, "Control Change 121 (Reset All Controllers) resets the channel's scanner", "CC 121 between number selection and value delivery", ["C12", "C16"], {}, "caught because non-contributing controller numbers are expanded in the grammar product since round one", "SEED2"),
 "C13-a1": ("C13", 1, "same slip as C12-a1, found independently", "sub-millisecond timeout", ["C13", "C12"], {}, "", "SEED2"),
 "C13-a2": ("C13", 2, "scanner-wide cache of the oldest pending arrival, refreshed with find_map (first pending channel, not the oldest)", "three channels pending at once, the older byte on a higher channel index, a delivering poll in between (shortest history: 12 operations on three channels)", ["C15"], {"C13": "needs three active channels; the C13 product is single-channel"}, "caught by the three-channel isolation products added for exactly this class", "SEED2"),
 "C14-a1": ("C14", 1, "elapsed time truncated to u32 milliseconds", "a pause of k*2^32 + d ms (d < timeout) before the first poll after the timeout", ["C14", "C13"], {}, "MISSED at first by C14 (C13 saw the as_millis truncation through the 1.5 ms timeout). Now long pauses of 2^32-2 and 2^32 ms are single actions and ages adjacent to a multiple of 2^32 (2^16 in thorough) are kept distinct in the state identity", "SEED2"),
 "C14-a2": ("C14", 2, "lazy reset of the polling scanner through a u16 generation, hand-written PartialEq", "65536 resets during which a channel is untouched", ["C14", "C17"], {}, "MISSED at first; caught through reset storms (C14: P2 nothing before a complete number since reset) and the C17 behavioural differential", "SEED2"),
 "C15-a1": ("C15", 1, "arrival stamps as u32 ms since a lazily taken scanner-wide epoch, saturating_sub on wrap", "another channel fed ~49.7 days earlier, a value arriving just before the wrap and polled just after", ["C15", "C13"], {}, "MISSED at first; needs the 2^32-2 ms pause and wrap-adjacent age classes", "SEED2"),
 "C15-a2": ("C15", 2, "u16 generation counter with a dirty flag (resets without traffic do not count), hand-written PartialEq", "an MSB, 65536 x (message on another channel, reset), the LSB", ["C15"], {}, "MISSED at first; the reset storm WITH traffic on another channel exists for this one", "SEED2"),
 "C16-a1": ("C16", 1, "(N)RPN scanner filters on `status & 0xB0 != 0xB0`: system messages are processed as Control Changes", "a system message whose first data byte is 6, 38 or 96..101", ["C16", "C15"], {}, "the quick data-byte grid for non-CC messages contains exactly these values", "SEED2"),
 "C16-a2": ("C16", 2, "14-bit CC hot path compares only data byte 1 with the awaited LSB controller number", "stored MSB for controller N, then a non-CC channel message whose first data byte is N+32", ["C16"], {}, "caught in the quick tier because the grid contains 38 and 63 (N = 6, 31); the thorough tier uses the full 128 x 128 grid", "SEED2"),
 "C17-a1": ("C17", 1, "reset() only resets the channel range [first..=last] touched since the last reset; `last` tracked wrongly", "three channels a < m < b with m fed after both", ["C17", "C15"], {}, "MISSED by the single-channel C17 products; C17 now also runs three-channel products with reset()==new() judged on the multi-channel scanner", "SEED2"),
 "C17-a2": ("C17", 2, "with more than 8 channels touched, reset() takes a bulk path `*self = Default::default()` that loses the timeout", "non-zero timeout and at least 9 distinct channels fed before the reset", ["C17"], {}, "MISSED at first; the touch-all action (a non-contributing message on each of the 16 channels) exists for this one", "SEED2"),
 "C01-a1": ("C01", 1, "no-std variant of the quarter-frame decoder forgets to mask the reserved bit", "build without the std feature and status 0xF1 with data byte 0x78..=0x7D", ["C01"], {}, "MISSED at first: C01 ran in the std configuration only. C01, C02, C03 and C06 now also run in the no-default-features configuration", "SEED2"),
 "C01-a2": ("C01", 2, "release-only hand-written status decode maps 0xF5 to SystemCommonUndefined1", "a build with debug assertions off and status byte 0xF5", ["C01", "C02"], {}, "the sweeps run in release builds", "SEED2"),
 "C03-a1": ("C03", 1, "no-std variant of the time-code-type decode lost its shift", "build without the std feature, status 0xF1, data byte 0x72..0x75 / 0x7A..0x7D", ["C03", "C01"], {}, "MISSED at first (std configuration only); caught by the new no-std parts", "SEED2"),
 "C03-a2": ("C03", 2, "debug-only cross-check in from_bytes_unchecked collides with the lossy quarter-frame decode", "a build with debug assertions and bytes (0xF1, 0x78..=0x7F, *)", ["C18"], {"C03": "the C03 sweep runs in a release build where the change is inert; C18 re-executes the API in an unoptimised build and sees the panic"}, "", "SEED2"),
 "C04-a1": ("C04", 1, "hand-written Deserialize: the branch for non-human-readable formats does not range-check", "serde feature and a deserializer whose is_human_readable() is false", ["C19"], {"C04": "needs the serde feature; it is a deserialisation defect"}, "MISSED at first: every front end of C19 was human readable. C19 now runs every input through a recursive adapter that reports is_human_readable() == false as well", "SEED2"),
 "C04-a2": ("C04", 2, "shared decimal parser accumulating with wrapping arithmetic in u32", "a numeral >= 2^32 whose residue mod 2^32 is in range", ["C04", "C05"], {}, "the numeral 4294967296 was in the structured numeral list; numerals around 2^8, 2^16, 2^32, 2^64, 2^128 are now generated systematically", "SEED2"),
 "C05-a1": ("C05", 1, "hand-rolled parser: checked multiply, unchecked add", "numerals 2^32 .. 2^32+3", ["C05"], {}, "", "SEED2"),
 "C05-a2": ("C05", 2, "u128/i128 conversions compare `value as u64` in builds without the std feature", "no-default-features and a 128-bit value >= 2^64 whose low 64 bits are in range", ["C05", "C04"], {}, "(the agent reported having read my memory notes on sandbox quirks - no check details - outside the directories it was told to avoid)", "SEED2"),
 "C07-a1": ("C07", 1, "O(1) reset by a u32 generation whose per-slot tag is stored as u8; hand-written PartialEq", "at least 256 resets in the scanner's history", ["C07", "C08"], {}, "MISSED at first although a 256-reset storm existed: the hand-written PartialEq made the state after the storm `==` the initial one, so the search merged them. Successors of reset-like actions are now identified strictly (key, `==` AND Debug fingerprint)", "SEED2"),
 "C07-a2": ("C07", 2, "no-std variant of the constructor's check uses can_be_part_of_14_bit (0..=63)", "build without the std feature and an MSB controller number 32..=63", ["C07", "C18"], {}, "MISSED by C07 at first (std only; C18 saw the missing documented panic). C07 now has a no-std part", "SEED2"),
 "C10-a1": ("C10", 1, "number bytes no longer clear the stored data LSB; an 8-bit selection stamp decides whether it is current", "a stored LSB, then exactly 128 complete 7-bit messages on the channel", ["C10", "C11"], {}, "MISSED at first (about 390 feeds deep). Now: pumped cycles (every cycle of up to three Control Changes repeated 300 times, every feed judged) in C08/C11/C13/C14/C18, and in C10 every message's encoding is fed 300 more times in a row", "SEED2"),
 "C10-a2": ("C10", 2, "same slip as C11-a1 (derived Default vs new), found independently", "scanner created through Default", ["C10", "C17"], {}, "", "SEED2"),
 "C18-a1": ("C18", 1, "u8 pending counter for a poll fast path leaks on a timed-out unpaired LSB; overflows after 256 leaks", "number selected, then 256 rounds of (CC 38, poll after the timeout)", ["C18", "C13"], {}, "MISSED at first (512 steps deep); caught by the pumped cycle [CC 38, poll] (panic in the unoptimised build; lost poll in release)", "SEED2"),
 "C18-a2": ("C18", 2, "FromStr accepts 0x.. and slices at byte offset 2", "a string in which a multi-byte character straddles byte offset 2", ["C05", "C04"], {"C18": "at first: its parse strings were ASCII only (now they include multi-byte strings)"}, "C04/C05 caught it through the accepted hex numeral and the 3-byte look-alike digits; a second alphabet with 2-, 3- and 4-byte characters is now enumerated", "SEED2"),
 "C19-a1": ("C19", 1, "data_type became optional for legacy input and the consistency check is skipped when it is absent", "map without data_type (or 5-element sequence), is_14_bit false, value > 127", ["C19"], {}, "MISSED at first, and the first version of C19 would have raised a FALSE ALARM on the harmless half of this change (accepting a missing field with a valid result): it demanded rejection of everything that is not a natural representation, which is more than the statement says. C19 now judges only what comes out (plus round trips of natural representations), and tries every input with each field omitted", "SEED2"),
 "C19-a2": ("C19", 2, "RawShortMessage accepts a 3-byte byte string with `&` instead of `|` in the range check", "input arrives as a byte string, exactly one data byte >= 128", ["C19"], {}, "MISSED at first (no byte-string inputs); C19 now feeds byte strings, strings, scalars, nulls and nested shapes to every type", "SEED2"),
 "C14-2": ("C14", 2, "inc/dec while an LSB is pending returns [None, Some(inc/dec)]", "number, CC 38, CC 96/97", ["C14"], {"C12": "an inc/dec after a lone LSB is outside the documented grammar"}, ""),
}

def main():
    root = '/verif/seeded'
    for sid, tup in sorted(SEEDS.items()):
        (prop, n, what, needs, caught, missed, note) = tup[:7]
        seeddir = tup[7] if len(tup) > 7 else 'SEED'
        src = '/tmp/wt/%s/%s/%d' % (prop, seeddir, n)
        dst = os.path.join(root, sid)
        if os.path.isdir(src):
            os.makedirs(dst, exist_ok=True)
            for f in os.listdir(src):
                p = os.path.join(src, f)
                if os.path.isfile(p):
                    shutil.copy(p, os.path.join(dst, f))
                elif os.path.isdir(p) and f == 'demo':
                    shutil.copytree(p, os.path.join(dst, f), dirs_exist_ok=True, ignore=shutil.ignore_patterns('target'))
        elif not os.path.isdir(dst):
            print('missing', src); continue
        meta = {
            "id": sid, "breaks_property": prop,
            "written_by": ("independent sub-agent given only the property record and a scratch worktree" if seeddir == 'SEED' else
                           "independent sub-agent given only the property record, a scratch worktree and the instruction to evade a bounded-exhaustive checker (short sequences, small byte domain, one or two channels, millisecond timeouts)"),
            "change": what, "needs_to_manifest": needs,
            "confirmed": {"suite_passes_with_change": True, "demo_fails_with_change": True, "demo_passes_without_change": True},
            "what_i_ran": ("SEEDDIR=SEED2 " if seeddir != 'SEED' else "") + RAN.format(prop=prop, n=n, checks=' '.join(caught + list(missed.keys()))),
            "caught_by_quick_checks": caught, "also_run_but_silent": missed, "note": note,
        }
        with open(os.path.join(dst, 'meta.json'), 'w') as f:
            json.dump(meta, f, indent=1)
    print('recorded', len(SEEDS))

if __name__ == '__main__':
    main()
