#!/bin/bash
# run_mutants.sh: applies each hand-made mutant to the scratch worktree /tmp/wt/mine (created with
# `git -C /repo worktree add --detach /tmp/wt/mine HEAD`), runs the repo suite there and the checks
# expected to catch it, and prints a table. /repo is never touched.
WT=/tmp/wt/mine  # create it first: git -C /repo worktree add --detach /tmp/wt/mine main; remove it afterwards
declare -A MAP=(
 [poll_le]="C13 C14" [poll_ignores_timeout]="C13 C14 C12" [first_kind_kept]="C14 C12" [flush_new_number]="C14 C12"
 [chan_mod8]="C15" [reset_forgets_value_lsb]="C17 C11" [number_lsb_keeps_value_lsb]="C10 C11"
 [low7_mask_3f]="C07 C09 C01" [polykey_swapped]="C01 C02 C03" [predicate_drops_inc_dec]="C16"
 [vec_scratch_in_feed]="C18" [static_scratch]="C17 C08" [tryfrom_i16_no_negative_check]="C04 C05"
 [serde_try_from_removed]="C19" [stored_byte_77]="C14 C12" [nrpn_stored_lsb_77]="C11 C10" [stale_pending_dropped]="C13 C14"
)
for m in "${@:-${!MAP[@]}}"; do
  git -C $WT checkout -q -- . && git -C $WT apply /verif/mutants/$m.diff || { echo "$m: patch failed"; continue; }
  echo "##### $m -> ${MAP[$m]}"
  LINES_MAX=3 /verif/tools/try_worktree.sh $WT ${MAP[$m]} 2>&1 | grep -v conda | cut -c1-260
done
git -C $WT checkout -q -- .
