#!/bin/bash
# try_worktree.sh <worktree dir with a candidate change applied> <check id>... :
# runs the repo's own suite in that worktree and the given quick checks against it (VERIF_REPO),
# without touching /repo. Prints a summary per check.
set -u
wt="$(realpath "$1")"; shift
suite=$(cd "$wt" && CARGO_NET_OFFLINE=true cargo test --workspace --no-fail-fast --offline 2>&1 | grep -E "^test result|FAILED|^error(\[|:)" | tr '\n' ' ')
echo "SUITE: $suite"
for id in "$@"; do
  out=$(VERIF_REPO="$wt" /verif/check "$id" --tier "${TIER:-quick}" 2>&1 | grep -v conda)
  echo "== $id: $(echo "$out" | grep -c '^VIOLATION') violation line(s); $(echo "$out" | grep -E '^\[' | tr '\n' ' ')"
  echo "$out" | grep -A2 '^VIOLATION' | head -${LINES_MAX:-9} | cut -c1-420
  echo "$out" | grep 'MACHINERY' | head -3
done
