#!/usr/bin/env python3
"""Regenerates /verif/MANIFEST.json from the table below (kept in one place so the manifest,
the driver and DESIGN.md stay consistent)."""
import json, os, subprocess
ROOT = os.path.dirname(os.path.dirname(os.path.abspath(__file__)))

SWEEP = "exploration"
MC = "model_checking"

# id: (built?, category, technique, text, note, design_ref)
CHECKS = {
 "C01": (True, SWEEP, "bounded-exhaustive enumeration of the complete 2^21-triple input space against a reference table",
         "Complete enumeration of all 256x128x128 byte triples for four factory implementations (incl. two third-party ones) and of every StructuredShortMessage value, against an independently written canonicalisation table; a message-layer transcript reproduced under Miri on i686 and s390x. The input space is finite and small, so this decides the property outright for the implementations enumerated.",
         "Trusted: the harness's MIDI table (common/midi.rs); 'every factory implementation' is instantiated with Raw, Structured and two harness-defined implementors.", "4 C01"),
 "C02": (True, SWEEP, "bounded-exhaustive enumeration of all valid triples against the MIDI 1.0 status table",
         "Every classification method and accessor on all 2^21 valid triples x 3 implementations (generic code, method-call syntax on the concrete types, and &&, &mut, Box, Rc, Arc receivers), plus all 256 type bytes, compared with a table oracle written from the specification; every ordered pair of status bytes classified back to back on one thread (history independence); a message-layer transcript reproduced under Miri on i686 and s390x. Supplementary, labelled as sampling: 40 (400) processes x 16 free-running threads against the same table.",
         "Trusted: the harness's table oracle.", "4 C02"),
 "C03": (True, SWEEP, "bounded-exhaustive differential enumeration over 4 representations x all valid triples, plus re-feeding every explored scanner transition in each representation",
         "All 20 trait methods and all 25 ordered conversions on every valid triple for Raw/Structured/three foreign implementors (one overrides to_bytes, one overrides from_bytes to be stricter, one refuses everything in from_bytes); every ordered pair of (status byte x 4 data combinations) taken through all of that back to back on one thread (history independence of the conversions); a message-layer transcript reproduced under Miri on i686 and s390x; scanners re-fed with every representation at every state of their fixpoints.",
         "'Any third-party type' is a quantifier over programs; instantiated with two implementors exercising the two documented extension points.", "4 C03"),
 "C04": (True, SWEEP, "bounded-exhaustive enumeration of conversion/constructor/parser inputs in two feature configurations and on a 32-bit target",
         "All ~150 conversions, `new`, FromStr and constants in configurations std and no-default-features: 8/16-bit and newtype sources complete, 32-bit complete in thorough, wider sources over a truncation alphabet; all 7-bit ASCII strings to length 3 (4) and every Unicode scalar alone / next to a digit; range audit of every message field over all triples and of every accessor of a third-party message whose status byte changes between reads; every numeral up to 1 100 000 and leading-zero paddings up to 300; conversions that do not exist on the pinned tree are probed and judged if they appear; the conversions once more with a 32-bit usize (harness_p32 interpreted by Miri for i686).",
         "64/128-bit and pointer-sized sources are covered over a structured finite alphabet (low 16 bits x high-bit patterns), not their whole range.", "4 C04"),
 "C05": (True, SWEEP, "bounded-exhaustive enumeration against reference arithmetic and a reference numeral recogniser",
         "Value preservation of every conversion in and out, parsing of all strings over a 14-symbol alphabet up to length 4 (6 thorough), all 7-bit ASCII strings up to length 3 (4), every Unicode scalar alone / before / after a digit, plus structured numerals, Display round trip for every value (also under twelve formatter-flag combinations), every numeral up to 1 100 000, ordering for all pairs.",
         "Non-ASCII characters appear alone or next to one digit only; U14 ordering is all-pairs only in the thorough tier; the 32-bit part covers conversions, not parsing.", "4 C05"),
 "C06": (True, SWEEP, "bounded-exhaustive enumeration of every constructor argument tuple",
         "Every argument tuple of the 19 specific constructors and the complete data grid of the 3 generic ones for 4 implementations (incl. third-party types with a stricter and with an all-refusing from_bytes), a build with panic=abort (each generic-constructor call in a child process), a message-layer transcript reproduced under Miri on i686 and s390x, test_util shorthands against the factory and through out-of-range values in every position.",
         "Trusted: the harness's table oracle.", "4 C06"),
}
MORE = {
 "C07": (True, MC, "exhaustive enumeration of the 14-bit CC message space x every reachable concrete scanner state (explicit-state fixpoint of the real scanner)",
         "Encoder: all 16x32x16384 messages and all 128 controller numbers for the panic condition; a cross-target transcript reproduced under Miri on i686 and s390x; every ordered pair of messages over 3072 boundary messages encoded back to back (history independence). Inversion: the complete concrete reachable state set of the real scanner on a channel (4097 states, from the xs fixpoint) x every message of that channel (2.1e9 state-message cases on one channel in the quick tier, on all 16 in thorough).",
         "One channel at a time; the other 15 idle (isolation is C15).", "4 C07"),
 "C08": (True, MC, "explicit-state model checking of the real scanner to a complete concrete fixpoint against a reference model",
         "Complete concrete reachability fixpoint of the real ControlChange14BitMessageScanner per channel (all 64x128 contributing inputs, reset, non-contributing class) in product with the statement's reference model; every transition executes the real feed/reset; every BFS path re-derived on a fresh object; in every state feeds through a message type whose n-th getter call panics (the scanner must stay consistent); 70000-round pumped cycles; a cross-target transcript (all sequences to depth 3) reproduced under Miri on i686 and s390x; stateright cross-count in thorough.",
         "Trusted: the reference model (one Option<(n,v)>). One channel at a time.", "4 C08"),
 "C09": (True, SWEEP, "bounded-exhaustive enumeration of constructor inputs against the statement's slot layout",
         "Quick: every number x boundary values and every value x boundary numbers on every channel, all 8 constructors, both byte orders, Raw and Structured; every ordered pair over a boundary domain of 2100 (4800) messages encoded back to back on one thread (history independence); supplementary sampling of concurrent use (40 / 400 processes x 16 threads); thorough: the full ~3.4e10 product (wall-capped, cap reported).",
         "Trusted: the harness's encoding table.", "4 C09"),
 "C10": (True, MC, "exhaustive enumeration of messages and running forms from every state of an explicit-state fixpoint of the real scanner",
         "Every state of the abstract reachability fixpoint of the real scanner x ~1000 boundary messages through the real encoder; running forms up to k=4 / k=3 from every such state; four dirty states x per-dimension complete message sets (all messages in thorough).",
         "Byte-value abstraction for the prior states (values {0,1,127}; 8 values in thorough); messages carry values outside that domain so leaks are visible.", "4 C10"),
 "C11": (True, MC, "explicit-state model checking of the real scanner against the statement's reference model (abstract fixpoint + concretisation probes; full concrete fixpoint in thorough)",
         "Reachability fixpoint of the real ParameterNumberMessageScanner x reference model, all 8x128 concrete inputs applied from every reached state; panicking-getter fault injection in every state; 70000-round pumped cycles; a cross-target transcript reproduced under Miri on i686 and s390x; thorough adds the complete concrete fixpoint (4.3M states, 4.4e9 transitions) on one channel and a stateright cross-count.",
         "Byte-value abstraction in the quick tier (DESIGN 3.3).", "4 C11"),
 "C12": (True, MC, "explicit-state model checking of the real scanner x a generator automaton of the documented grammar under a mock clock; exhaustive encode-feed-poll from every state of the observer fixpoint; hooked-vs-unhooked transcript conformance",
         "Fixpoint of real polling scanner x grammar generator (timeouts 0, 0.5 ms and 1.5 ms on quarter/half millisecond ticks, 2 ms, and five astronomically long timeouts that alias to zero under truncation) with early/late polls, ticks, long pauses and non-contributing messages anywhere; a two-channel product of two generators through one scanner; encode->feed->poll from every state of the C14 fixpoint x ~1000 messages x both byte orders; the hook is bound to the shipped build by an all-sequences transcript comparison with the real-clock build.",
         "Mock clock hook (add-only, cfg-guarded); byte-value abstraction; ages saturate at CAP.", "4 C12"),
 "C13": (True, MC, "explicit-state model checking of the real scanner x history observer under a mock clock, timeouts {0, 0.5 ms, 1.5 ms, 2 ms, 2^40 ms, five astronomically long}",
         "Fixpoint over feeds (contributing and non-contributing), polls, resets, reset storms, clock ticks and long pauses (998, 1000, 2^20, 2^32-2, 2^32 ms); timeouts 0, 0.5 ms and 1.5 ms (quarter / half millisecond ticks), 2 ms, 2^40 ms, and 2^32 ms, 2^55 s, 2^58 s, 2^61 s, Duration::MAX (each aliases to zero under one truncating conversion); pumped cycles; further timeout classes 500 ns / 1500 ns / 1 s on matching clocks; a cross-target transcript (timeouts 2 ms and 10 s, pauses 4295 ms and 6 s) reproduced under Miri on i686 and s390x; finite timeouts (50 ms, 10 s) on the real clock with scheduling-independent margins; rules R1-R5 judged on every transition; every feed re-executed at four later instants; one- and two-step concrete probes; CAP-doubling rerun and stateright cross-count in thorough.",
         "Mock clock hook; byte-value abstraction with concretisation probes; age saturation (cross-checked by doubling).", "4 C13"),
 "C14": (True, MC, "explicit-state model checking of the real scanner x history observer (literal reading of the statement's clauses P1-P7)",
         "Same product as C13 (timeouts 0, 2 ms, 2^40 ms and the five astronomically long ones) with the no-fabrication / no-duplication / no-loss rules P1-P7; malformed and mixed-kind traffic, non-contributing traffic, reset storms and long pauses are part of the alphabet; timeout classes 500 ns / 1500 ns / 1 s; the standardised RPNs (0,2)..(0,6) selected in one step in a small exploration; in every state feeds through a message type whose n-th getter call panics.",
         "Mock clock hook; byte-value abstraction with concretisation probes; age saturation.", "4 C14"),
 "C15": (True, MC, "explicit-state model checking of a two-channel product (multi-channel scanner vs two solo scanners) for channel pairs, all three scanners",
         "Fixpoint of (M, A, B) per channel pair with distinct per-channel values, system messages that look like (N)RPN traffic, third-channel traffic, polls, ticks, 2^32 ms pauses and reset storms with traffic; one pair (eight in thorough) with a 1 s timeout on a 250 ms clock and one with a 1.5 ms timeout on half-millisecond ticks; complete messages for standardised RPNs (MPE configuration, null, RPN 0) as single actions on the pair (0, 8); quick: 14 pairs incl. all {c, c+8} and 2 triples (M, A, B, C); thorough: all 120 pairs and 6 triples.",
         "Two simultaneously active channels in the pair products, three in the triple products; four or more active channels are not explored.", "4 C15"),
 "C16": (True, MC, "exhaustive enumeration of non-contributing messages at every state of the scanners' explicit-state fixpoints; exhaustive predicate tables",
         "Every state of each scanner's abstract fixpoint x ~20k-50k non-contributing messages: no report and == state; predicates for all 128 controller numbers; converse link between predicate and observed behaviour.",
         "Derived PartialEq is the notion of 'equal state'. Data-byte grid of 13 values for non-CC messages in quick (full 128^2 in thorough).", "4 C16"),
 "C17": (True, MC, "explicit-state fixpoints with reset/copy probes in every reachable state and replay of every BFS path on a fresh object",
         "In every reachable state (complete concrete state space for the 14-bit scanner): reset()==new() by PartialEq AND by behaviour (all continuations up to 3 feeds, with polls, compared with a new scanner), also after storms of 256 / 65536 resets (thorough: 2^32 resets in a row, and 2^32 messages before a reset, per scanner type), after traffic on all 16 channels and after progress on all 15 other channels; copies evolve identically; every path re-derived on a fresh scanner (catches state outside the value); three-channel products; new()==default().",
         "Continuations of the behavioural comparison are bounded to 3 feeds; PartialEq is used for the equality clause only.", "4 C17"),
 "C18": (True, SWEEP, "exhaustive re-execution of the API domains and scanner fixpoints inside allocation-counting regions and catch_unwind in an unoptimised build, three configurations; polling scanner also with the mock clock moving on after every reading, handed over between threads on the real clock; Display under formatter flags and Debug of scanners mid-sequence inside counting regions",
         "Counting #[global_allocator] + catch_unwind around every API region in opt-level-0 builds of configurations std (mock clock), no-default-features and real clock; documented panics must occur.",
         "Counts allocations made on the calling thread through the global allocator; does not see stack usage.", "4 C18"),
 "C19": (True, SWEEP, "bounded-exhaustive enumeration of deserializer inputs (primitive value deserializers and serde_json::Value trees, human-readable and not) in the four combinations of the std and serde_repr features",
         "Every u8/i8/u16/i16 and boundary/truncation 32/64-bit values for the six integer types; composite types over boundary sets containing the first invalid value of every field, all variants; round trips of natural representations; every input with each field omitted, byte strings, strings, scalars, nulls, nested shapes; a scanner type that gains Serialize + Deserialize is restored from every single-leaf mutation of its serialised states and must survive every Control Change.",
         "serde_json::Value is used as the generic self-describing deserializer; other data formats are assumed to behave like it.", "4 C19"),
}
CHECKS.update(MORE)
PENDING = {}

def main():
    hooks_commits = subprocess.run(["git", "-C", "/repo", "log", "--format=%H", "--grep=helgoboss_midi_verif"],
                                   stdout=subprocess.PIPE, text=True).stdout.split()
    checks = []
    for pid, (built, cat, tech, text, note, ref) in sorted(CHECKS.items()):
        if not built:
            continue
        checks.append({
            "property_id": pid,
            "quick_cmd": "./check %s --tier quick" % pid,
            "thorough_cmd": "./check %s --tier thorough" % pid,
            "evidence_file": "/verif/evidence/%s.json" % pid,
            "replay_cmd_template": "./check replay {path}",
            "engine": "xs" if cat == MC else "xs-sweep",
            "level_claimed": {"category": cat, "text": text, "design_ref": "DESIGN.md section " + ref},
            "level_note": note,
            "technique": tech,
        })
    na = [{"property_id": p, "reason": r} for p, r in sorted(PENDING.items()) if p not in CHECKS or not CHECKS[p][0]]
    m = {
        "version": 1,
        "setup_cmd": "./check setup",
        "hooks": {
            "guard": "helgoboss_midi_verif",
            "enable": "RUSTFLAGS=\"--cfg helgoboss_midi_verif\" (set per harness crate by ./check; the real-clock harness is built with the flag off)",
            "baseline_off_cmd": "cd /repo && cargo test --workspace --no-fail-fast --offline",
            "source_commits": hooks_commits,
            "add_only": True,
        },
        "engines": [
            {"name": "xs", "path": "/verif/xs", "serves_properties": [c["property_id"] for c in checks if c["engine"] == "xs"],
             "kind_free_text": "explicit-state breadth-first search to a fixpoint whose transition function calls the real scanner methods; reference model / history observer in Rust; paths re-derived on fresh objects"},
            {"name": "xs-sweep", "path": "/verif/common", "serves_properties": [c["property_id"] for c in checks if c["engine"] == "xs-sweep"],
             "kind_free_text": "complete enumeration of a finite input domain against an independent reference (depth-1 bounded-exhaustive exploration)"},
            {"name": "stateright", "path": "/verif/xs/src/sr.rs", "serves_properties": ["C08", "C11", "C13", "C14"],
             "kind_free_text": "second, independently written BFS (stateright 0.31) over the same System; unique-state counts must agree (thorough tier)"},
        ],
        "checks": checks,
        "not_applicable": na,
        "notes": "Exit 2 from a check means machinery failure (build error, nondeterministic replay), never a verdict. Known findings live in /verif/KNOWN_FINDINGS.txt.",
    }
    with open(os.path.join(ROOT, "MANIFEST.json"), "w") as f:
        json.dump(m, f, indent=1)
    print("wrote MANIFEST.json: %d checks, %d not_applicable" % (len(checks), len(na)))

if __name__ == "__main__":
    main()
