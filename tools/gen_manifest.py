#!/usr/bin/env python3
"""Regenerates /verif/MANIFEST.json from the table below (kept in one place so the manifest,
the driver and DESIGN.md stay consistent)."""
import json, os, subprocess
ROOT = os.path.dirname(os.path.dirname(os.path.abspath(__file__)))

SWEEP = "exploration"
MC = "model_checking"

# id: (built?, category, technique, text, note, design_ref)
CHECKS = {
 "C01": (True, SWEEP, "bounded-exhaustive enumeration of the complete 2^21-triple input space against a reference table",
         "Complete enumeration of all 256x128x128 byte triples for four factory implementations (incl. two third-party ones) and of every StructuredShortMessage value, against an independently written canonicalisation table. The input space is finite and small, so this decides the property outright for the implementations enumerated.",
         "Trusted: the harness's MIDI table (common/midi.rs); 'every factory implementation' is instantiated with Raw, Structured and two harness-defined implementors.", "4 C01"),
 "C02": (True, SWEEP, "bounded-exhaustive enumeration of all valid triples against the MIDI 1.0 status table",
         "Every classification method and accessor on all 2^21 valid triples x 3 implementations, plus all 256 type bytes, compared with a table oracle written from the specification.",
         "Trusted: the harness's table oracle.", "4 C02"),
 "C03": (True, SWEEP, "bounded-exhaustive differential enumeration over 4 representations x all valid triples, plus re-feeding every explored scanner transition in each representation",
         "All 20 trait methods and all 16 ordered conversions on every valid triple for Raw/Structured/two foreign implementors; scanners re-fed with every representation at every state of their fixpoints.",
         "'Any third-party type' is a quantifier over programs; instantiated with two implementors exercising the two documented extension points.", "4 C03"),
 "C04": (True, SWEEP, "bounded-exhaustive enumeration of conversion/constructor/parser inputs in two feature configurations",
         "All ~150 conversions, `new`, FromStr and constants in configurations std and no-default-features: 8/16-bit and newtype sources complete, 32-bit complete in thorough, wider sources over a truncation alphabet; range audit of every message field over all triples.",
         "64/128-bit and pointer-sized sources are covered over a structured finite alphabet (low 16 bits x high-bit patterns), not their whole range.", "4 C04"),
 "C05": (True, SWEEP, "bounded-exhaustive enumeration against reference arithmetic and a reference numeral recogniser",
         "Value preservation of every conversion in and out, parsing of all strings over a 14-symbol alphabet up to length 4 (6 thorough) plus structured numerals, Display round trip for every value, ordering for all pairs.",
         "Other Unicode is represented by two symbols; U14 ordering is all-pairs only in the thorough tier.", "4 C05"),
 "C06": (True, SWEEP, "bounded-exhaustive enumeration of every constructor argument tuple",
         "Every argument tuple of the 19 specific constructors and the complete data grid of the 3 generic ones for 3 implementations, test_util shorthands against the factory and through out-of-range values in every position.",
         "Trusted: the harness's table oracle.", "4 C06"),
}
PENDING = {
 "C07": "check under construction in this round (14-bit CC encoder sweep x reachable scanner states)",
 "C08": "check under construction in this round (concrete fixpoint of the 14-bit CC scanner)",
 "C09": "check under construction in this round ((N)RPN encoder sweep)",
 "C10": "check under construction in this round",
 "C11": "check under construction in this round",
 "C12": "check under construction in this round",
 "C13": "check under construction in this round",
 "C14": "check under construction in this round",
 "C15": "check under construction in this round",
 "C16": "check under construction in this round",
 "C17": "check under construction in this round",
 "C18": "check under construction in this round",
 "C19": "check under construction in this round",
}

def main():
    hooks_commits = subprocess.run(["git", "-C", "/repo", "log", "--format=%H", "--grep=helgoboss_midi_verif"],
                                   stdout=subprocess.PIPE, text=True).stdout.split()
    checks = []
    for pid, (built, cat, tech, text, note, ref) in sorted(CHECKS.items()):
        if not built:
            continue
        checks.append({
            "property_id": pid,
            "quick_cmd": "./check %s --tier quick" % pid,
            "thorough_cmd": "./check %s --tier thorough" % pid,
            "evidence_file": "/verif/evidence/%s.json" % pid,
            "replay_cmd_template": "./check replay {path}",
            "engine": "xs" if cat == MC else "xs-sweep",
            "level_claimed": {"category": cat, "text": text, "design_ref": "DESIGN.md section " + ref},
            "level_note": note,
            "technique": tech,
        })
    na = [{"property_id": p, "reason": r} for p, r in sorted(PENDING.items()) if p not in CHECKS or not CHECKS[p][0]]
    m = {
        "version": 1,
        "setup_cmd": "./check setup",
        "hooks": {
            "guard": "helgoboss_midi_verif",
            "enable": "RUSTFLAGS=\"--cfg helgoboss_midi_verif\" (set per harness crate by ./check; the real-clock harness is built with the flag off)",
            "baseline_off_cmd": "cd /repo && cargo test --workspace --no-fail-fast --offline",
            "source_commits": hooks_commits,
            "add_only": True,
        },
        "engines": [
            {"name": "xs", "path": "/verif/xs", "serves_properties": [c["property_id"] for c in checks if c["engine"] == "xs"],
             "kind_free_text": "explicit-state breadth-first search to a fixpoint whose transition function calls the real scanner methods; reference model / history observer in Rust; paths re-derived on fresh objects"},
            {"name": "xs-sweep", "path": "/verif/common", "serves_properties": [c["property_id"] for c in checks if c["engine"] == "xs-sweep"],
             "kind_free_text": "complete enumeration of a finite input domain against an independent reference (depth-1 bounded-exhaustive exploration)"},
            {"name": "stateright", "path": "/verif/xs/src/sr.rs", "serves_properties": [],
             "kind_free_text": "second, independently written BFS (stateright 0.31) over the same System; unique-state counts must agree (thorough tier)"},
        ],
        "checks": checks,
        "not_applicable": na,
        "notes": "Exit 2 from a check means machinery failure (build error, nondeterministic replay), never a verdict. Known findings live in /verif/KNOWN_FINDINGS.txt.",
    }
    with open(os.path.join(ROOT, "MANIFEST.json"), "w") as f:
        json.dump(m, f, indent=1)
    print("wrote MANIFEST.json: %d checks, %d not_applicable" % (len(checks), len(na)))

if __name__ == "__main__":
    main()
