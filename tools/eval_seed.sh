#!/bin/bash
# eval_seed.sh <ID> <N> <check id>... : confirm a sub-agent's seeded change in ITS scratch worktree
# (/tmp/wt/<ID>, change in SEED/<N>/): demo passes on the clean tree, the repo suite passes with the
# change, the demo fails with the change; then run the given checks against the changed worktree.
# /repo is never touched.
set -u
id="$1"; n="$2"; shift 2
wt=/tmp/wt/$id
seed=$wt/${SEEDDIR:-SEED}/$n
cd "$wt" || exit 2
git checkout -q -- . ; rm -f tests/seed_demo_*.rs
demo=$(ls $seed/demo*.rs 2>/dev/null | head -1)
flags=""
if [ -n "$demo" ] && grep -q "verif_hooks" "$demo"; then flags="--cfg helgoboss_midi_verif"; fi
feat=""
if grep -qi "no-default-features" $seed/NOTES.md 2>/dev/null && grep -qi "only.*no-default-features\|--no-default-features --test" $seed/NOTES.md; then feat="--no-default-features"; fi
if [ -n "$demo" ] && grep -q "serde" "$demo"; then feat="--features serde,serde_repr"; fi
if [ -n "$demo" ]; then
  cp "$demo" tests/seed_demo_$n.rs
  clean=$(RUSTFLAGS="$flags" cargo test --offline ${DEMO_FLAGS:-} $feat --test seed_demo_$n 2>&1 | grep -E "^test result|^error" | tr '\n' ' ')
  echo "DEMO on clean tree ($feat $flags): $clean"
fi
rm -f tests/seed_demo_$n.rs
git apply $seed/patch.diff || { echo "PATCH DOES NOT APPLY"; exit 2; }
echo "PATCH: $(git diff --stat | tail -1)"
suite=$(cargo test --workspace --no-fail-fast --offline 2>&1 | grep -E "^test result|FAILED|^error(\[|:)" | grep -v seed_demo | tr '\n' ' ')
echo "SUITE with change: $suite"
if [ -n "$demo" ]; then
  cp "$demo" tests/seed_demo_$n.rs
  changed=$(RUSTFLAGS="$flags" cargo test --offline ${DEMO_FLAGS:-} $feat --test seed_demo_$n 2>&1 | grep -E "^test result|^error" | tr '\n' ' ')
  echo "DEMO with change: $changed"
fi
rm -f tests/seed_demo_$n.rs
for c in "$@"; do
  out=$(VERIF_REPO="$wt" /verif/check "$c" --tier "${TIER:-quick}" 2>&1 | grep -v conda)
  echo "== $c: $(echo "$out" | grep -c '^VIOLATION') violation line(s); $(echo "$out" | grep -E '^\[' | tr '\n' ' ')"
  echo "$out" | grep -A2 '^VIOLATION' | head -${LINES_MAX:-6} | cut -c1-400
  echo "$out" | grep 'MACHINERY' | head -3
done
git checkout -q -- .
