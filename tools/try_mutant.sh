#!/bin/bash
# try_mutant.sh <patch file> <check id>... : apply the patch to /repo, run the repo's own suite
# (must still pass) and the given quick checks (at least one should report), then undo.
set -u
patch="$(realpath "$1")"; shift
cd /repo || exit 2
if ! git diff --quiet; then echo "repo has uncommitted changes"; exit 2; fi
git apply "$patch" || { echo "patch does not apply"; exit 2; }
trap 'git -C /repo checkout -- . ; git -C /repo clean -fdq src tests 2>/dev/null' EXIT
suite=$(CARGO_NET_OFFLINE=true cargo test --workspace --no-fail-fast --offline 2>&1 | grep -E "^test result|FAILED|error(\[|:)" | tr '\n' ' ')
echo "SUITE: $suite"
for id in "$@"; do
  out=$(/verif/check "$id" --tier quick 2>&1 | grep -v conda)
  code=$?
  echo "== $id: $(echo "$out" | grep -c '^VIOLATION') violation line(s); $(echo "$out" | grep -E '^\[' | tr '\n' ' ')"
  echo "$out" | grep -A2 '^VIOLATION' | head -12 | cut -c1-420
  echo "$out" | grep 'MACHINERY' | head -3
done
