//! `hm` — harness binary for configuration C: helgoboss-midi with features serde + serde_repr.
//! C19: deserialisation enforces the constructors' invariants.
use core::convert::TryFrom;
use helgoboss_midi::*;
use rayon::prelude::*;
use serde::de::value::{BytesDeserializer, BoolDeserializer, Error as DeErr, F64Deserializer, I16Deserializer, I32Deserializer, I64Deserializer, I8Deserializer, StrDeserializer, U16Deserializer, U32Deserializer, U64Deserializer, U8Deserializer, UnitDeserializer};
use serde::de::DeserializeOwned;
use serde::{Deserialize, Serialize};
use serde_json::{json, Value};
use std::fmt::Debug;
use std::sync::atomic::{AtomicU64, Ordering};
use xs::{catch, Check, Tier, Violation};

#[global_allocator]
static ALLOC: xs::alloc::Counting = xs::alloc::Counting;

pub const PART: &str = match (cfg!(feature = "hm-std"), cfg!(feature = "hm-repr")) {
    (true, true) => "serde",
    (false, true) => "serde-nostd",
    (true, false) => "serde-norepr",
    (false, false) => "serde-nostd-norepr",
};

// ---------------------------------------------------------------------------------------------
// A recursive deserializer adapter that reports `is_human_readable() == false` (what binary
// formats such as bincode or postcard report) and otherwise forwards everything. A hand-written
// Deserialize impl may branch on that flag; "deserializing any input" includes such formats.
// ---------------------------------------------------------------------------------------------
mod nh {
    use serde::de::{DeserializeSeed, Deserializer, EnumAccess, MapAccess, SeqAccess, VariantAccess, Visitor};
    pub struct NH<D>(pub D);
    struct V<T>(T);
    struct A<T>(T);
    struct S<T>(T);

    macro_rules! fwd {
        ($($m:ident),*) => {$(
            fn $m<W: Visitor<'de>>(self, v: W) -> Result<W::Value, Self::Error> { self.0.$m(V(v)) }
        )*};
    }
    impl<'de, D: Deserializer<'de>> Deserializer<'de> for NH<D> {
        type Error = D::Error;
        fn is_human_readable(&self) -> bool { false }
        fwd!(deserialize_any, deserialize_bool, deserialize_i8, deserialize_i16, deserialize_i32, deserialize_i64, deserialize_i128,
             deserialize_u8, deserialize_u16, deserialize_u32, deserialize_u64, deserialize_u128, deserialize_f32, deserialize_f64,
             deserialize_char, deserialize_str, deserialize_string, deserialize_bytes, deserialize_byte_buf, deserialize_option,
             deserialize_unit, deserialize_seq, deserialize_map, deserialize_identifier, deserialize_ignored_any);
        fn deserialize_unit_struct<W: Visitor<'de>>(self, n: &'static str, v: W) -> Result<W::Value, Self::Error> { self.0.deserialize_unit_struct(n, V(v)) }
        fn deserialize_newtype_struct<W: Visitor<'de>>(self, n: &'static str, v: W) -> Result<W::Value, Self::Error> { self.0.deserialize_newtype_struct(n, V(v)) }
        fn deserialize_tuple<W: Visitor<'de>>(self, l: usize, v: W) -> Result<W::Value, Self::Error> { self.0.deserialize_tuple(l, V(v)) }
        fn deserialize_tuple_struct<W: Visitor<'de>>(self, n: &'static str, l: usize, v: W) -> Result<W::Value, Self::Error> { self.0.deserialize_tuple_struct(n, l, V(v)) }
        fn deserialize_struct<W: Visitor<'de>>(self, n: &'static str, f: &'static [&'static str], v: W) -> Result<W::Value, Self::Error> { self.0.deserialize_struct(n, f, V(v)) }
        fn deserialize_enum<W: Visitor<'de>>(self, n: &'static str, f: &'static [&'static str], v: W) -> Result<W::Value, Self::Error> { self.0.deserialize_enum(n, f, V(v)) }
    }
    macro_rules! vis {
        ($($m:ident: $t:ty),*) => {$(
            fn $m<E: serde::de::Error>(self, x: $t) -> Result<Self::Value, E> { self.0.$m(x) }
        )*};
    }
    impl<'de, W: Visitor<'de>> Visitor<'de> for V<W> {
        type Value = W::Value;
        fn expecting(&self, f: &mut std::fmt::Formatter) -> std::fmt::Result { self.0.expecting(f) }
        vis!(visit_bool: bool, visit_i8: i8, visit_i16: i16, visit_i32: i32, visit_i64: i64, visit_i128: i128, visit_u8: u8, visit_u16: u16,
             visit_u32: u32, visit_u64: u64, visit_u128: u128, visit_f32: f32, visit_f64: f64, visit_char: char, visit_str: &str,
             visit_borrowed_str: &'de str, visit_string: String, visit_bytes: &[u8], visit_borrowed_bytes: &'de [u8], visit_byte_buf: Vec<u8>);
        fn visit_none<E: serde::de::Error>(self) -> Result<Self::Value, E> { self.0.visit_none() }
        fn visit_unit<E: serde::de::Error>(self) -> Result<Self::Value, E> { self.0.visit_unit() }
        fn visit_some<D: Deserializer<'de>>(self, d: D) -> Result<Self::Value, D::Error> { self.0.visit_some(NH(d)) }
        fn visit_newtype_struct<D: Deserializer<'de>>(self, d: D) -> Result<Self::Value, D::Error> { self.0.visit_newtype_struct(NH(d)) }
        fn visit_seq<X: SeqAccess<'de>>(self, a: X) -> Result<Self::Value, X::Error> { self.0.visit_seq(A(a)) }
        fn visit_map<X: MapAccess<'de>>(self, a: X) -> Result<Self::Value, X::Error> { self.0.visit_map(A(a)) }
        fn visit_enum<X: EnumAccess<'de>>(self, a: X) -> Result<Self::Value, X::Error> { self.0.visit_enum(A(a)) }
    }
    impl<'de, X: SeqAccess<'de>> SeqAccess<'de> for A<X> {
        type Error = X::Error;
        fn next_element_seed<T: DeserializeSeed<'de>>(&mut self, seed: T) -> Result<Option<T::Value>, X::Error> { self.0.next_element_seed(S(seed)) }
        fn size_hint(&self) -> Option<usize> { self.0.size_hint() }
    }
    impl<'de, X: MapAccess<'de>> MapAccess<'de> for A<X> {
        type Error = X::Error;
        fn next_key_seed<K: DeserializeSeed<'de>>(&mut self, seed: K) -> Result<Option<K::Value>, X::Error> { self.0.next_key_seed(S(seed)) }
        fn next_value_seed<T: DeserializeSeed<'de>>(&mut self, seed: T) -> Result<T::Value, X::Error> { self.0.next_value_seed(S(seed)) }
        fn size_hint(&self) -> Option<usize> { self.0.size_hint() }
    }
    impl<'de, X: EnumAccess<'de>> EnumAccess<'de> for A<X> {
        type Error = X::Error;
        type Variant = A<X::Variant>;
        fn variant_seed<T: DeserializeSeed<'de>>(self, seed: T) -> Result<(T::Value, Self::Variant), X::Error> {
            self.0.variant_seed(S(seed)).map(|(v, va)| (v, A(va)))
        }
    }
    impl<'de, X: VariantAccess<'de>> VariantAccess<'de> for A<X> {
        type Error = X::Error;
        fn unit_variant(self) -> Result<(), X::Error> { self.0.unit_variant() }
        fn newtype_variant_seed<T: DeserializeSeed<'de>>(self, seed: T) -> Result<T::Value, X::Error> { self.0.newtype_variant_seed(S(seed)) }
        fn tuple_variant<W: Visitor<'de>>(self, len: usize, v: W) -> Result<W::Value, X::Error> { self.0.tuple_variant(len, V(v)) }
        fn struct_variant<W: Visitor<'de>>(self, f: &'static [&'static str], v: W) -> Result<W::Value, X::Error> { self.0.struct_variant(f, V(v)) }
    }
    impl<'de, T: DeserializeSeed<'de>> DeserializeSeed<'de> for S<T> {
        type Value = T::Value;
        fn deserialize<D: Deserializer<'de>>(self, d: D) -> Result<T::Value, D::Error> { self.0.deserialize(NH(d)) }
    }
}

fn vio(chk: &Check, rule: &str, cls: &str, case: String, detail: String) {
    chk.violate(Violation::new(rule, format!("C19/{}/{}", rule, cls), detail).with_case(case));
}

struct Cnt {
    evals: AtomicU64,
    invalid_inputs: AtomicU64,
    /// inputs that are not a natural representation but were accepted and mapped to a valid value
    lenient: AtomicU64,
}

trait IntT: DeserializeOwned + Serialize + Copy + Debug + PartialEq + TryFrom<u16> + Send + Sync {
    const NAME: &'static str;
    const MAXV: u16;
    fn getw(self) -> u16;
}
macro_rules! intt {
    ($t:ident, $max:expr) => {
        impl IntT for $t {
            const NAME: &'static str = stringify!($t);
            const MAXV: u16 = $max;
            fn getw(self) -> u16 {
                self.get() as u16
            }
        }
    };
}
intt!(U4, 15);
intt!(U7, 127);
intt!(U14, 16383);
intt!(Channel, 15);
intt!(KeyNumber, 127);
intt!(ControllerNumber, 127);

/// One integer-typed input through a primitive value deserializer: must fail unless the
/// mathematical value `math` (None: not a number at all) is in range, and then hold it.
fn judge_int<T: IntT>(chk: &Check, cnt: &Cnt, how: &str, math: Option<i128>, r: Result<Result<T, DeErr>, String>) {
    cnt.evals.fetch_add(1, Ordering::Relaxed);
    let in_range = math.map_or(false, |m| m >= 0 && m <= T::MAXV as i128);
    if !in_range {
        cnt.invalid_inputs.fetch_add(1, Ordering::Relaxed);
    }
    match r {
        Err(p) => vio(chk, "deserialize-panics", T::NAME, format!("int|{}|{}", T::NAME, how), format!("{}::deserialize({}) panicked: {}", T::NAME, how, p)),
        Ok(Ok(v)) => {
            if v.getw() > T::MAXV {
                vio(chk, "deserialize-accepts-invalid", &format!("{}/out-of-range", T::NAME), format!("int|{}|{}", T::NAME, how), format!("{}::deserialize({}) produced a value holding {} (MAX {})", T::NAME, how, v.getw(), T::MAXV));
            } else if !in_range {
                // an input that is not the natural representation of a valid value was accepted and
                // turned into SOME valid value: the statement ("either fails or yields a value that
                // could have been built through the constructors") allows that; only counted
                cnt.lenient.fetch_add(1, Ordering::Relaxed);
            } else if Some(v.getw() as i128) != math {
                vio(chk, "deserialize-wrong-value", T::NAME, format!("int|{}|{}", T::NAME, how), format!("{}::deserialize({}) produced {}", T::NAME, how, v.getw()));
            }
        }
        Ok(Err(_)) => {
            // rejecting is always allowed by the first sentence; the natural representation
            // (an in-range u8/u16) must be accepted, judged in the round trip below
        }
    }
}

/// A value-tree NODE that is a newtype wrapper around `D`: whatever the visitor is asked for, the
/// deserializer answers `visit_newtype_struct(inner)` (what a self-describing value tree with a
/// Newtype node does). A hand-written visitor that forwards the inner value into the raw
/// representation without its range check shows here and nowhere else.
struct NewtypeNode<D>(D);
impl<'de, D: serde::Deserializer<'de>> serde::Deserializer<'de> for NewtypeNode<D> {
    type Error = D::Error;
    fn deserialize_any<V: serde::de::Visitor<'de>>(self, visitor: V) -> Result<V::Value, D::Error> {
        visitor.visit_newtype_struct(self.0)
    }
    serde::forward_to_deserialize_any! {
        bool i8 i16 i32 i64 i128 u8 u16 u32 u64 u128 f32 f64 char str string bytes byte_buf option unit unit_struct newtype_struct seq tuple
        tuple_struct map struct enum identifier ignored_any
    }
}

fn ints_for<T: IntT>(chk: &Check, cnt: &Cnt, tier: Tier) {
    // a Newtype node around every u16 value, a few u8 / i64 ones, and nested twice
    for v in 0..=65535u16 {
        judge_int::<T>(chk, cnt, &format!("Newtype({}u16)", v), Some(v as i128), catch(|| T::deserialize(NewtypeNode(U16Deserializer::<DeErr>::new(v)))));
        if v < 256 {
            judge_int::<T>(chk, cnt, &format!("Newtype({}u8)", v), Some(v as i128), catch(|| T::deserialize(NewtypeNode(U8Deserializer::<DeErr>::new(v as u8)))));
            judge_int::<T>(chk, cnt, &format!("Newtype(Newtype({}u16))", v), Some(v as i128), catch(|| T::deserialize(NewtypeNode(NewtypeNode(U16Deserializer::<DeErr>::new(v))))));
            judge_int::<T>(chk, cnt, &format!("Newtype({}i64)", -(v as i64)), Some(-(v as i128)), catch(|| T::deserialize(NewtypeNode(I64Deserializer::<DeErr>::new(-(v as i64))))));
        }
    }
    // non-human-readable front end: every u8 / u16 / i16 value and the wide boundary values
    for v in 0..=65535u16 {
        judge_int::<T>(chk, cnt, &format!("{}u16 (not human readable)", v), Some(v as i128), catch(|| T::deserialize(nh::NH(U16Deserializer::<DeErr>::new(v)))));
        let i = v as i16;
        judge_int::<T>(chk, cnt, &format!("{}i16 (not human readable)", i), Some(i as i128), catch(|| T::deserialize(nh::NH(I16Deserializer::<DeErr>::new(i)))));
        if v < 256 {
            judge_int::<T>(chk, cnt, &format!("{}u8 (not human readable)", v), Some(v as i128), catch(|| T::deserialize(nh::NH(U8Deserializer::<DeErr>::new(v as u8)))));
        }
    }
    for w in [65536u64, 65536 + 5, (1 << 32) + 5, u64::MAX, 1 << 63] {
        judge_int::<T>(chk, cnt, &format!("{}u64 (not human readable)", w), Some(w as i128), catch(|| T::deserialize(nh::NH(U64Deserializer::<DeErr>::new(w)))));
        judge_int::<T>(chk, cnt, &format!("{}i64 (not human readable)", w as i64), Some(w as i64 as i128), catch(|| T::deserialize(nh::NH(I64Deserializer::<DeErr>::new(w as i64)))));
    }
    for v in 0..=255u8 {
        judge_int::<T>(chk, cnt, &format!("{}u8", v), Some(v as i128), catch(|| T::deserialize(U8Deserializer::<DeErr>::new(v))));
        let i = v as i8;
        judge_int::<T>(chk, cnt, &format!("{}i8", i), Some(i as i128), catch(|| T::deserialize(I8Deserializer::<DeErr>::new(i))));
    }
    for v in 0..=65535u16 {
        judge_int::<T>(chk, cnt, &format!("{}u16", v), Some(v as i128), catch(|| T::deserialize(U16Deserializer::<DeErr>::new(v))));
        let i = v as i16;
        judge_int::<T>(chk, cnt, &format!("{}i16", i), Some(i as i128), catch(|| T::deserialize(I16Deserializer::<DeErr>::new(i))));
    }
    let m = T::MAXV as u64;
    let mut wide: Vec<u64> = vec![0, 1, m, m + 1, 255, 256, 65535, 65536, 65536 + m, 65536 + 1, (1 << 32) - 1, 1 << 32, (1 << 32) + 1, (1 << 32) + m, u64::MAX, u64::MAX - 1, 1 << 63, (1 << 63) + 1, 1 << 16 | 5, 1 << 24 | 5];
    if tier.thorough() {
        for k in 0..64 {
            for d in 0..4u64 {
                wide.push((1u64 << k).wrapping_add(d));
                wide.push((1u64 << k).wrapping_sub(d));
            }
        }
    }
    for &w in &wide {
        judge_int::<T>(chk, cnt, &format!("{}u64", w), Some(w as i128), catch(|| T::deserialize(U64Deserializer::<DeErr>::new(w))));
        let i = w as i64;
        judge_int::<T>(chk, cnt, &format!("{}i64", i), Some(i as i128), catch(|| T::deserialize(I64Deserializer::<DeErr>::new(i))));
        let u = w as u32;
        judge_int::<T>(chk, cnt, &format!("{}u32", u), Some(u as i128), catch(|| T::deserialize(U32Deserializer::<DeErr>::new(u))));
        let j = w as i32;
        judge_int::<T>(chk, cnt, &format!("{}i32", j), Some(j as i128), catch(|| T::deserialize(I32Deserializer::<DeErr>::new(j))));
    }
    judge_int::<T>(chk, cnt, "str \"5\"", None, catch(|| T::deserialize(StrDeserializer::<DeErr>::new("5"))));
    judge_int::<T>(chk, cnt, "bool true", None, catch(|| T::deserialize(BoolDeserializer::<DeErr>::new(true))));
    judge_int::<T>(chk, cnt, "unit", None, catch(|| T::deserialize(UnitDeserializer::<DeErr>::new())));
    judge_int::<T>(chk, cnt, "f64 5.5", None, catch(|| T::deserialize(F64Deserializer::<DeErr>::new(5.5))));
    judge_int::<T>(chk, cnt, "f64 1e9", None, catch(|| T::deserialize(F64Deserializer::<DeErr>::new(1e9))));
    for j in [json!([5]), json!({"0": 5}), json!(null), json!("7"), json!(-1), json!(16384.0), json!([]), json!(1e30)] {
        let how = format!("json {}", j);
        judge_int::<T>(chk, cnt, &how, None, catch(|| T::deserialize(j.clone()).map_err(|e| serde::de::Error::custom(e))));
    }
    // natural representation round trip for every value
    for v in 0..=T::MAXV {
        let t = T::try_from(v).ok().unwrap();
        let r = catch(|| serde_json::to_value(t).ok().and_then(|j| serde_json::from_value::<T>(j).ok()));
        if r != Ok(Some(t)) {
            vio(chk, "roundtrip", T::NAME, format!("rt|{}|{}", T::NAME, v), format!("{}({}) does not survive serialise -> deserialise: {:?}", T::NAME, v, r));
        }
        cnt.evals.fetch_add(1, Ordering::Relaxed);
    }
}

/// Generic judgement of a composite input. `valid`: whether the field values satisfy the
/// constructors' preconditions; `check`: post-deserialisation invariants and accessor calls,
/// returns a description of what is wrong with an accepted value (None = fine).
fn judge<T: DeserializeOwned + Debug>(chk: &Check, cnt: &Cnt, ty: &str, cls_if_bad: &str, input: &Value, valid: bool, check: impl Fn(&T) -> Option<String>) {
    cnt.evals.fetch_add(1, Ordering::Relaxed);
    if !valid {
        cnt.invalid_inputs.fetch_add(1, Ordering::Relaxed);
    }
    // second front end: the same tree through a deserializer that is NOT human readable (what
    // binary formats report); only the validity of what comes out is judged there, since a
    // format-aware impl may legitimately reject JSON-like shapes in that mode
    {
        let r2 = catch(|| T::deserialize(nh::NH(input.clone())));
        cnt.evals.fetch_add(1, Ordering::Relaxed);
        let case = || format!("de-binary|{}|{}", ty, input);
        match r2 {
            Err(p) => vio(chk, "deserialize-panics", &format!("{}/not-human-readable", ty), case(), format!("deserialising {} as {} through a non-human-readable deserializer panicked: {}", input, ty, p)),
            Ok(Ok(v)) => match catch(|| check(&v)) {
                Err(p) => vio(chk, "deserialize-accepts-invalid", &format!("{}/{}/not-human-readable/accessor-panics", ty, cls_if_bad), case(), format!("{} through a non-human-readable deserializer gave {:?}; an accessor then panicked: {}", input, v, p)),
                Ok(Some(bad)) => vio(chk, "deserialize-accepts-invalid", &format!("{}/{}/not-human-readable", ty, cls_if_bad), case(), format!("{} through a non-human-readable deserializer gave {:?}: {}", input, v, bad)),
                Ok(None) => {}
            },
            Ok(Err(_)) => {}
        }
    }
    let r = catch(|| serde_json::from_value::<T>(input.clone()));
    let case = || format!("de|{}|{}", ty, input);
    match r {
        Err(p) => vio(chk, "deserialize-panics", ty, case(), format!("deserialising {} as {} panicked: {}", input, ty, p)),
        Ok(Err(_)) => {
            if valid {
                vio(chk, "deserialize-rejects-natural-representation", ty, case(), format!("{} is the natural representation of a valid {} but was rejected", input, ty));
            }
        }
        Ok(Ok(v)) => {
            let post = catch(|| check(&v));
            match post {
                Err(p) => vio(chk, "deserialize-accepts-invalid", &format!("{}/{}/accessor-panics", ty, cls_if_bad), case(), format!("{} deserialised to {:?}; an accessor/encoder then panicked: {}", input, v, p)),
                Ok(Some(bad)) => vio(chk, "deserialize-accepts-invalid", &format!("{}/{}", ty, cls_if_bad), case(), format!("{} deserialised to {:?}: {}", input, v, bad)),
                Ok(None) => {
                    if !valid {
                        // accepted, and the result satisfies every invariant: allowed by the statement
                        cnt.lenient.fetch_add(1, Ordering::Relaxed);
                    }
                }
            }
        }
    }
}

/// Shapes that are nobody's natural representation (byte strings, strings, scalars, nulls,
/// truncated sequences, maps with a field missing): whatever a Deserialize impl makes of them,
/// an accepted value must satisfy the invariants. Both front ends.
fn shapes<T: DeserializeOwned + Debug>(chk: &Check, cnt: &Cnt, ty: &str, check: &dyn Fn(&T) -> Option<String>) {
    let judge_one = |how: String, r: Result<Result<T, DeErr>, String>| {
        cnt.evals.fetch_add(1, Ordering::Relaxed);
        cnt.invalid_inputs.fetch_add(1, Ordering::Relaxed);
        match r {
            Err(p) => vio(chk, "deserialize-panics", &format!("{}/shape", ty), format!("shape|{}|{}", ty, how), format!("deserialising {} as {} panicked: {}", how, ty, p)),
            Ok(Ok(v)) => match catch(|| check(&v)) {
                Err(p) => vio(chk, "deserialize-accepts-invalid", &format!("{}/unusual-shape/accessor-panics", ty), format!("shape|{}|{}", ty, how), format!("{} deserialised to {:?}; an accessor then panicked: {}", how, v, p)),
                Ok(Some(bad)) => vio(chk, "deserialize-accepts-invalid", &format!("{}/unusual-shape", ty), format!("shape|{}|{}", ty, how), format!("{} deserialised to {:?}: {}", how, v, bad)),
                Ok(None) => {
                    cnt.lenient.fetch_add(1, Ordering::Relaxed);
                }
            },
            Ok(Err(_)) => {}
        }
    };
    // byte strings: every string of length 0..=4 over {0, 1, 0x7F, 0x80, 0xFF}, plus for length 3
    // every first byte with the second and third from {0, 0x7F, 0x80, 0xFF}
    let b5 = [0u8, 1, 0x7F, 0x80, 0xFF];
    let mut all: Vec<Vec<u8>> = vec![vec![]];
    let mut level: Vec<Vec<u8>> = vec![vec![]];
    for _ in 0..4 {
        let mut next = Vec::new();
        for v in &level {
            for &b in &b5 {
                let mut w = v.clone();
                w.push(b);
                next.push(w);
            }
        }
        all.extend(next.iter().cloned());
        level = next;
    }
    for s0 in 0..=255u8 {
        for &a in &[0u8, 0x7F, 0x80, 0xFF] {
            for &b in &[0u8, 0x7F, 0x80, 0xFF] {
                all.push(vec![s0, a, b]);
            }
        }
    }
    for bytes in &all {
        judge_one(format!("bytes {:?}", bytes), catch(|| T::deserialize(BytesDeserializer::<DeErr>::new(bytes))));
        judge_one(format!("bytes {:?} (not human readable)", bytes), catch(|| T::deserialize(nh::NH(BytesDeserializer::<DeErr>::new(bytes)))));
    }
    for st in ["", "0", "5", "127", "128", "NoteOn", "DataEntry", "\u{0}", "[144,1,2]"] {
        judge_one(format!("str {:?}", st), catch(|| T::deserialize(StrDeserializer::<DeErr>::new(st))));
        judge_one(format!("str {:?} (not human readable)", st), catch(|| T::deserialize(nh::NH(StrDeserializer::<DeErr>::new(st)))));
    }
    for j in [json!(null), json!(true), json!(1.5), json!([]), json!({}), json!([[144, 1, 2]]), json!([null]), json!({"0": 144, "1": 1, "2": 2}), json!([255]), json!([200, 200]), json!([16, 200, 70000, true, false])] {
        let how = format!("json {}", j);
        judge_one(how.clone(), catch(|| T::deserialize(j.clone()).map_err(|e| serde::de::Error::custom(e))));
        judge_one(format!("{} (not human readable)", how), catch(|| T::deserialize(nh::NH(j.clone())).map_err(|e| serde::de::Error::custom(e))));
    }
}

/// Every map input of a struct grid is also tried with each single field removed, and every
/// sequence input truncated by one element.
fn with_omissions(v: &Value) -> Vec<Value> {
    let mut out = Vec::new();
    match v {
        Value::Object(m) => {
            for k in m.keys() {
                let mut c = m.clone();
                c.remove(k);
                out.push(Value::Object(c));
            }
        }
        Value::Array(a) => {
            for i in 0..a.len() {
                let mut c = a.clone();
                c.remove(i);
                out.push(Value::Array(c));
            }
        }
        _ => {}
    }
    out
}

fn raw_ok(m: &RawShortMessage) -> Option<String> {
    if m.status_byte() < 0x80 {
        // the accessors that would panic
        let _ = catch(|| m.r#type());
        return Some(format!("status byte {} < 0x80; r#type() {}", m.status_byte(), if catch(|| m.r#type()).is_err() { "panics" } else { "returns" }));
    }
    let _ = (m.r#type(), m.channel(), m.to_structured(), m.super_type());
    if m.data_byte_1().get() > 127 || m.data_byte_2().get() > 127 {
        return Some("data byte out of range".into());
    }
    None
}

fn structured_ok(m: &StructuredShortMessage) -> Option<String> {
    let b = m.to_bytes();
    if b.0 < 0x80 || b.1.get() > 127 || b.2.get() > 127 {
        return Some(format!("bytes {:?} out of range", b));
    }
    if StructuredShortMessage::from_bytes(b).ok() != Some(*m) {
        return Some(format!("not reconstructible from its own bytes {:?}", b));
    }
    let _ = (m.r#type(), m.channel(), m.key_number(), m.pitch_bend_value());
    None
}

fn cc14_ok(m: &ControlChange14BitMessage) -> Option<String> {
    if m.msb_controller_number().get() > 31 {
        let p = catch(|| m.lsb_controller_number()).is_err();
        return Some(format!("MSB controller number {} > 31; lsb_controller_number() {}", m.msb_controller_number().get(), if p { "panics" } else { "returns" }));
    }
    let _ = m.lsb_controller_number();
    let _: [RawShortMessage; 2] = m.to_short_messages();
    if m.channel().get() > 15 || m.value().get() > 16383 {
        return Some("field out of range".into());
    }
    if *m != ControlChange14BitMessage::new(m.channel(), m.msb_controller_number(), m.value()) {
        return Some("not equal to the constructor-built message with the same fields".into());
    }
    None
}

fn pnm_ok(m: &ParameterNumberMessage) -> Option<String> {
    if m.channel().get() > 15 || m.number().get() > 16383 || m.value().get() > 16383 {
        return Some("field out of range".into());
    }
    if m.is_14_bit() && m.data_type() != DataType::DataEntry {
        return Some(format!("is_14_bit with data type {:?}", m.data_type()));
    }
    if !m.is_14_bit() && m.value().get() > 127 {
        let enc: [Option<RawShortMessage>; 4] = m.to_short_messages(DataEntryByteOrder::MsbFirst);
        let worst = enc.iter().flatten().map(|x| x.data_byte_2().get()).max().unwrap_or(0);
        return Some(format!("7-bit message with value {}; it encodes a data byte of {}", m.value().get(), worst));
    }
    let enc: [Option<RawShortMessage>; 4] = m.to_short_messages(DataEntryByteOrder::LsbFirst);
    for x in enc.iter().flatten() {
        if x.data_byte_1().get() > 127 || x.data_byte_2().get() > 127 {
            return Some("encodes an out-of-range data byte".into());
        }
    }
    // equal to a constructor-built value
    let c = m.channel();
    let n = m.number();
    let built = match (m.is_14_bit(), m.is_registered(), m.data_type()) {
        (true, true, _) => ParameterNumberMessage::registered_14_bit(c, n, m.value()),
        (true, false, _) => ParameterNumberMessage::non_registered_14_bit(c, n, m.value()),
        (false, r, dt) => {
            let v = U7::try_from(m.value()).ok()?;
            match (r, dt) {
                (true, DataType::DataEntry) => ParameterNumberMessage::registered_7_bit(c, n, v),
                (false, DataType::DataEntry) => ParameterNumberMessage::non_registered_7_bit(c, n, v),
                (true, DataType::DataIncrement) => ParameterNumberMessage::registered_increment(c, n, v),
                (false, DataType::DataIncrement) => ParameterNumberMessage::non_registered_increment(c, n, v),
                (true, DataType::DataDecrement) => ParameterNumberMessage::registered_decrement(c, n, v),
                (false, DataType::DataDecrement) => ParameterNumberMessage::non_registered_decrement(c, n, v),
            }
        }
    };
    if built != *m {
        return Some("no public constructor builds an equal message".into());
    }
    None
}

fn composites(chk: &Check, cnt: &Cnt, tier: Tier) {
    let d: Vec<u32> = if tier.thorough() { (0..=256).collect() } else { vec![0, 1, 127, 128, 255, 256] };
    // RawShortMessage: [status, d1, d2]
    for s in 0..=256u32 {
        for &a in &d {
            for &b in &d {
                let valid = (0x80..=0xFF).contains(&s) && a <= 127 && b <= 127;
                let cls = if s < 0x80 { "status<0x80" } else if s > 255 { "status>255" } else { "data-byte>127" };
                judge::<RawShortMessage>(chk, cnt, "RawShortMessage", cls, &json!([s, a, b]), valid, raw_ok);
            }
        }
    }
    for j in [json!([0x90, 1]), json!([0x90, 1, 2, 3]), json!({"0": 0x90}), json!("x"), json!([[0x90, 1, 2]]), json!([-1, 0, 0]), json!([0x90, -1, 0])] {
        judge::<RawShortMessage>(chk, cnt, "RawShortMessage", "malformed", &j, false, raw_ok);
    }
    // ControlChange14BitMessage
    for c in [0u32, 15, 16, 255, 256] {
        for n in 0..=256u32 {
            for v in [0u32, 1, 16383, 16384, 65535, 65536] {
                let valid = c <= 15 && n <= 31 && v <= 16383;
                let cls = if c > 15 { "channel>15" } else if n > 127 { "controller>127" } else if n > 31 { "msb-controller>31" } else { "value>16383" };
                judge::<ControlChange14BitMessage>(chk, cnt, "ControlChange14BitMessage", cls, &json!({"channel": c, "msb_controller_number": n, "value": v}), valid, cc14_ok);
                if n % 16 == 0 || n == 31 || n == 33 {
                    for o in with_omissions(&json!({"channel": c, "msb_controller_number": n, "value": v})).iter().chain(with_omissions(&json!([c, n, v])).iter()) {
                        judge::<ControlChange14BitMessage>(chk, cnt, "ControlChange14BitMessage", &format!("{}/field-omitted", cls), o, false, cc14_ok);
                    }
                }
                // sequence form (serde derives accept it for self-describing formats)
                let r = catch(|| serde_json::from_value::<ControlChange14BitMessage>(json!([c, n, v])));
                cnt.evals.fetch_add(1, Ordering::Relaxed);
                if let Ok(Ok(m)) = r {
                    if let Ok(Some(bad)) | Ok(Some(bad)) = catch(|| cc14_ok(&m)) {
                        vio(chk, "deserialize-accepts-invalid", &format!("ControlChange14BitMessage/{}/seq-form", cls), format!("de|ControlChange14BitMessage|[{},{},{}]", c, n, v), format!("[{},{},{}] deserialised to {:?}: {}", c, n, v, m, bad));
                    }
                }
            }
        }
    }
    for j in [json!({"channel": 1, "value": 5}), json!({"channel": 1, "msb_controller_number": 2}), json!({}), json!(5), json!({"channel": "1", "msb_controller_number": 2, "value": 3})] {
        judge::<ControlChange14BitMessage>(chk, cnt, "ControlChange14BitMessage", "malformed", &j, false, cc14_ok);
    }
    // ParameterNumberMessage
    for c in [0u32, 15, 16] {
        for n in [0u32, 1, 16383, 16384, 65536] {
            for v in [0u32, 1, 127, 128, 255, 16383, 16384, 65535, 65536] {
                for reg in [false, true] {
                    for is14 in [false, true] {
                        for dt in ["DataEntry", "DataIncrement", "DataDecrement", "Bogus"] {
                            let fields_ok = c <= 15 && n <= 16383 && v <= 16383 && dt != "Bogus";
                            let consistent = if is14 { dt == "DataEntry" } else { v <= 127 };
                            let valid = fields_ok && consistent;
                            let cls = if !fields_ok { "field-out-of-range" } else if is14 { "14-bit-with-inc-dec" } else { "7-bit-value>127" };
                            judge::<ParameterNumberMessage>(chk, cnt, "ParameterNumberMessage", cls, &json!({"channel": c, "number": n, "value": v, "is_registered": reg, "is_14_bit": is14, "data_type": dt}), valid, pnm_ok);
                            for o in with_omissions(&json!({"channel": c, "number": n, "value": v, "is_registered": reg, "is_14_bit": is14, "data_type": dt})).iter().chain(with_omissions(&json!([c, n, v, reg, is14, dt])).iter()) {
                                judge::<ParameterNumberMessage>(chk, cnt, "ParameterNumberMessage", &format!("{}/field-omitted", cls), o, false, pnm_ok);
                            }
                            // the same field values as a sequence (what non-self-describing formats feed the derive)
                            judge::<ParameterNumberMessage>(chk, cnt, "ParameterNumberMessage", &format!("{}/seq-form", cls), &json!([c, n, v, reg, is14, dt]), valid, pnm_ok);
                        }
                    }
                }
            }
        }
    }
    for j in [json!({"channel": 1, "number": 2, "value": 3, "is_registered": true, "is_14_bit": false}), json!({"channel": 1, "number": 2, "value": 3, "is_registered": 1, "is_14_bit": false, "data_type": "DataEntry"}), json!([1, 2, 300, true, false, "DataEntry"]), json!([1, 2, 3, true, true, "DataIncrement"])] {
        judge::<ParameterNumberMessage>(chk, cnt, "ParameterNumberMessage", "malformed-or-seq-form", &j, false, pnm_ok);
    }
    // StructuredShortMessage: every variant x per-field {0, max, max+1}
    let f7 = [0u32, 127, 128, 65536 + 5];
    let fch = [0u32, 15, 16, 65536 + 5];
    let f14 = [0u32, 16383, 16384, 65536 + 5];
    for &c in &fch {
        for &a in &f7 {
            for &b in &f7 {
                let valid = c <= 15 && a <= 127 && b <= 127;
                for (variant, k1, k2) in [("NoteOff", "key_number", "velocity"), ("NoteOn", "key_number", "velocity"), ("PolyphonicKeyPressure", "key_number", "pressure_amount"), ("ControlChange", "controller_number", "control_value")] {
                    judge::<StructuredShortMessage>(chk, cnt, "StructuredShortMessage", variant, &json!({variant: {"channel": c, k1: a, k2: b}}), valid, structured_ok);
                }
            }
            let valid = c <= 15 && a <= 127;
            judge::<StructuredShortMessage>(chk, cnt, "StructuredShortMessage", "ProgramChange", &json!({"ProgramChange": {"channel": c, "program_number": a}}), valid, structured_ok);
            judge::<StructuredShortMessage>(chk, cnt, "StructuredShortMessage", "ChannelPressure", &json!({"ChannelPressure": {"channel": c, "pressure_amount": a}}), valid, structured_ok);
        }
        for &v in &f14 {
            judge::<StructuredShortMessage>(chk, cnt, "StructuredShortMessage", "PitchBendChange", &json!({"PitchBendChange": {"channel": c, "pitch_bend_value": v}}), c <= 15 && v <= 16383, structured_ok);
        }
    }
    for &v in &f14 {
        judge::<StructuredShortMessage>(chk, cnt, "StructuredShortMessage", "SongPositionPointer", &json!({"SongPositionPointer": {"position": v}}), v <= 16383, structured_ok);
    }
    for &a in &f7 {
        judge::<StructuredShortMessage>(chk, cnt, "StructuredShortMessage", "SongSelect", &json!({"SongSelect": {"song_number": a}}), a <= 127, structured_ok);
    }
    for name in ["SystemExclusiveStart", "TuneRequest", "SystemExclusiveEnd", "TimingClock", "Start", "Continue", "Stop", "ActiveSensing", "SystemReset", "SystemCommonUndefined1", "SystemCommonUndefined2", "SystemRealTimeUndefined1", "SystemRealTimeUndefined2"] {
        judge::<StructuredShortMessage>(chk, cnt, "StructuredShortMessage", name, &json!(name), true, structured_ok);
    }
    for j in [json!("Bogus"), json!({"NoteOn": {"channel": 1, "key_number": 2}}), json!({"Bogus": {}}), json!({"NoteOn": [1, 2, 300]}), json!({"NoteOn": [16, 2, 3]}), json!(5), json!({"TimeCodeQuarterFrame": {"FrameCountLsNibble": 16}}), json!({"TimeCodeQuarterFrame": {"Last": {"hours_count_ms_bit": true, "time_code_type": "Fps99"}}}), json!({"TimeCodeQuarterFrame": {"Last": {"hours_count_ms_bit": 2, "time_code_type": "Fps24"}}})] {
        judge::<StructuredShortMessage>(chk, cnt, "StructuredShortMessage", "malformed", &j, false, structured_ok);
    }
    for variant in ["FrameCountLsNibble", "FrameCountMsNibble", "SecondsCountLsNibble", "SecondsCountMsNibble", "MinutesCountLsNibble", "MinutesCountMsNibble", "HoursCountLsNibble"] {
        for v in [0u32, 15, 16, 255, 256, 65536 + 3] {
            judge::<TimeCodeQuarterFrame>(chk, cnt, "TimeCodeQuarterFrame", variant, &json!({variant: v}), v <= 15, |f| if U7::from(*f).get() > 127 { Some("encodes out of range".into()) } else { None });
            judge::<StructuredShortMessage>(chk, cnt, "StructuredShortMessage", "TimeCodeQuarterFrame", &json!({"TimeCodeQuarterFrame": {variant: v}}), v <= 15, structured_ok);
        }
    }
    for b in [json!(false), json!(true)] {
        for t in ["Fps24", "Fps25", "Fps30DropFrame", "Fps30NonDrop", "Bogus"] {
            judge::<TimeCodeQuarterFrame>(chk, cnt, "TimeCodeQuarterFrame", "Last", &json!({"Last": {"hours_count_ms_bit": b, "time_code_type": t}}), t != "Bogus", |f| if TimeCodeQuarterFrame::from(U7::from(*f)) != *f { Some("not reconstructible".into()) } else { None });
        }
    }
    for t in ["Fps24", "Fps25", "Fps30DropFrame", "Fps30NonDrop", "Bogus", "fps24"] {
        judge::<TimeCodeType>(chk, cnt, "TimeCodeType", "variant", &json!(t), !t.contains("ogus") && t != "fps24", |_| None);
    }
    for t in ["DataEntry", "DataIncrement", "DataDecrement", "Bogus"] {
        judge::<DataType>(chk, cnt, "DataType", "variant", &json!(t), t != "Bogus", |_| None);
    }
    // ShortMessageType (serde_repr)
    #[cfg(feature = "hm-repr")]
    for b in 0..=600u32 {
        let valid = b <= 255 && (b as u8 >= 0xF0 || (b >= 0x80 && b & 0x0F == 0));
        judge::<ShortMessageType>(chk, cnt, "ShortMessageType", "repr", &json!(b), valid, |t| if u8::from(*t) as u32 != b { Some(format!("decoded as {:?}", t)) } else { None });
    }
    shapes::<RawShortMessage>(chk, cnt, "RawShortMessage", &raw_ok);
    shapes::<StructuredShortMessage>(chk, cnt, "StructuredShortMessage", &structured_ok);
    shapes::<ControlChange14BitMessage>(chk, cnt, "ControlChange14BitMessage", &cc14_ok);
    shapes::<ParameterNumberMessage>(chk, cnt, "ParameterNumberMessage", &pnm_ok);
    shapes::<U7>(chk, cnt, "U7", &|v: &U7| if v.get() > 127 { Some("out of range".into()) } else { None });
    shapes::<U14>(chk, cnt, "U14", &|v: &U14| if v.get() > 16383 { Some("out of range".into()) } else { None });
    shapes::<Channel>(chk, cnt, "Channel", &|v: &Channel| if v.get() > 15 { Some("out of range".into()) } else { None });
    shapes::<TimeCodeQuarterFrame>(chk, cnt, "TimeCodeQuarterFrame", &|f: &TimeCodeQuarterFrame| if U7::from(*f).get() > 127 { Some("encodes out of range".into()) } else { None });
    #[cfg(feature = "hm-repr")]
    {
        judge::<ShortMessageType>(chk, cnt, "ShortMessageType", "repr", &json!("NoteOn"), false, |_| None);
        judge::<ShortMessageType>(chk, cnt, "ShortMessageType", "repr", &json!(-112), false, |_| None);
    }
}

fn roundtrip<T: Serialize + DeserializeOwned + PartialEq + Debug>(chk: &Check, ty: &str, v: &T) {
    let r = catch(|| serde_json::to_value(v).ok().and_then(|j| serde_json::from_value::<T>(j).ok()));
    match r {
        Ok(Some(back)) if back == *v => {}
        other => vio(chk, "roundtrip", ty, format!("rt|{}|{:?}", ty, v), format!("{:?} does not survive serialise -> deserialise: {:?}", v, other)),
    }
}

fn roundtrips(chk: &Check, cnt: &Cnt, tier: Tier) {
    let grid: Vec<u8> = if tier.thorough() { (0..128).collect() } else { vec![0, 1, 7, 8, 63, 64, 112, 119, 120, 126, 127] };
    (0x80..=0xFFu8).into_par_iter().for_each(|s| {
        for &a in &grid {
            for &b in &grid {
                let bytes = (s, U7::try_from(a).unwrap(), U7::try_from(b).unwrap());
                let r = RawShortMessage::from_bytes(bytes).unwrap();
                roundtrip(chk, "RawShortMessage", &r);
                roundtrip(chk, "StructuredShortMessage", &r.to_structured());
            }
        }
        cnt.evals.fetch_add(2 * (grid.len() * grid.len()) as u64, Ordering::Relaxed);
    });
    let b14: [u16; 10] = [0, 1, 127, 128, 129, 8191, 8192, 16256, 16382, 16383];
    for c in 0..16u8 {
        let ch = Channel::try_from(c).unwrap();
        for n in 0..32u8 {
            for &v in &b14 {
                roundtrip(chk, "ControlChange14BitMessage", &ControlChange14BitMessage::new(ch, ControllerNumber::try_from(n).unwrap(), U14::try_from(v).unwrap()));
                cnt.evals.fetch_add(1, Ordering::Relaxed);
            }
        }
        for &n in &b14 {
            let num = U14::try_from(n).unwrap();
            for &v in &b14 {
                roundtrip(chk, "ParameterNumberMessage", &ParameterNumberMessage::registered_14_bit(ch, num, U14::try_from(v).unwrap()));
                roundtrip(chk, "ParameterNumberMessage", &ParameterNumberMessage::non_registered_14_bit(ch, num, U14::try_from(v).unwrap()));
                cnt.evals.fetch_add(2, Ordering::Relaxed);
            }
            for v in 0..128u8 {
                let v = U7::try_from(v).unwrap();
                for m in [ParameterNumberMessage::registered_7_bit(ch, num, v), ParameterNumberMessage::non_registered_7_bit(ch, num, v), ParameterNumberMessage::registered_increment(ch, num, v), ParameterNumberMessage::non_registered_decrement(ch, num, v)] {
                    roundtrip(chk, "ParameterNumberMessage", &m);
                }
                cnt.evals.fetch_add(4, Ordering::Relaxed);
            }
        }
    }
    for b in 0..128u8 {
        roundtrip(chk, "TimeCodeQuarterFrame", &TimeCodeQuarterFrame::from(U7::try_from(b).unwrap()));
    }
    #[cfg(feature = "hm-repr")]
    for b in 0..=255u8 {
        if let Ok(t) = ShortMessageType::try_from(b) {
            roundtrip(chk, "ShortMessageType", &t);
        }
    }
    cnt.evals.fetch_add(128 + 23, Ordering::Relaxed);
}

// ---------------------------------------------------------------------------------------------
// Types that do NOT implement Deserialize on the current tree: the three scanners. If a change gives
// one of them a Deserialize impl, deserialisation becomes a new way to create a scanner, and "any
// input that deserialises satisfies the invariants the constructors establish" then covers it: a
// restored scanner must not panic on any subsequent feed. Probed by autoref specialisation, so this
// compiles whether or not the impls exist.
// ---------------------------------------------------------------------------------------------
struct Wrap<T>(core::marker::PhantomData<T>);
trait DeYes<T> {
    fn de(&self, v: &Value) -> Option<Option<T>>;
    fn ser(&self, t: &T) -> Option<Value>;
}
trait DeNo<T> {
    fn de(&self, v: &Value) -> Option<Option<T>>;
    fn ser(&self, t: &T) -> Option<Value>;
}
impl<T: DeserializeOwned + Serialize> DeYes<T> for Wrap<T> {
    fn de(&self, v: &Value) -> Option<Option<T>> {
        Some(catch(|| serde_json::from_value::<T>(v.clone()).ok()).unwrap_or(None))
    }
    fn ser(&self, t: &T) -> Option<Value> {
        serde_json::to_value(t).ok()
    }
}
impl<T> DeNo<T> for &Wrap<T> {
    fn de(&self, _v: &Value) -> Option<Option<T>> {
        None
    }
    fn ser(&self, _t: &T) -> Option<Value> {
        None
    }
}

/// every document that differs from `base` in exactly one numeric / boolean / null leaf
fn leaf_mutations(base: &Value) -> Vec<Value> {
    fn paths(v: &Value, cur: &mut Vec<String>, out: &mut Vec<Vec<String>>) {
        match v {
            Value::Array(a) => {
                for (i, x) in a.iter().enumerate() {
                    cur.push(i.to_string());
                    paths(x, cur, out);
                    cur.pop();
                }
            }
            Value::Object(o) => {
                for (k, x) in o.iter() {
                    cur.push(k.clone());
                    paths(x, cur, out);
                    cur.pop();
                }
            }
            _ => out.push(cur.clone()),
        }
    }
    fn set(v: &mut Value, path: &[String], new: &Value) {
        if path.is_empty() {
            *v = new.clone();
            return;
        }
        match v {
            Value::Array(a) => set(&mut a[path[0].parse::<usize>().unwrap()], &path[1..], new),
            Value::Object(o) => set(o.get_mut(&path[0]).unwrap(), &path[1..], new),
            _ => {}
        }
    }
    let mut ps = Vec::new();
    paths(base, &mut Vec::new(), &mut ps);
    let news = [json!(0), json!(1), json!(5), json!(31), json!(32), json!(40), json!(63), json!(64), json!(127), json!(128), json!(255), json!(16383), json!(16384), json!(65535), json!(true), json!(false), Value::Null];
    let mut out = Vec::new();
    for p in &ps {
        for n in &news {
            let mut d = base.clone();
            set(&mut d, p, n);
            out.push(d);
        }
    }
    out
}

macro_rules! restored_scanner_probe {
    ($chk:expr, $cnt:expr, $ty:ty, $name:expr, $make:expr, $prefixes:expr) => {{
        let w = Wrap::<$ty>(core::marker::PhantomData);
        let fresh: $ty = $make;
        let implemented = (&w).ser(&fresh).is_some();
        $chk.push("scanner_deserialize_probe", json!({"type": $name, "implements_serialize_and_deserialize": implemented}));
        if implemented {
            // templates: the serialised form of a new scanner and of scanners with progress
            let mut templates: Vec<Value> = Vec::new();
            for prefix in $prefixes.iter() {
                let mut sc: $ty = $make;
                for &(c, n, v) in prefix.iter() {
                    let _ = sc.feed(&RawShortMessage::control_change(Channel::new(c), ControllerNumber::new(n), U7::new(v)));
                }
                if let Some(t) = (&w).ser(&sc) {
                    templates.push(t);
                }
            }
            for t in &templates {
                for doc in leaf_mutations(t) {
                    $cnt.evals.fetch_add(1, Ordering::Relaxed);
                    if let Some(Some(sc)) = (&w).de(&doc) {
                        // a restored scanner must survive every Control Change on the channels it was edited on
                        for c in [0u8, 1, 15] {
                            for n in 0..128u8 {
                                let mut copy = sc;
                                let r = catch(|| {
                                    let _ = copy.feed(&RawShortMessage::control_change(Channel::new(c), ControllerNumber::new(n), U7::new(1)));
                                });
                                if let Err(p) = r {
                                    $chk.violate(Violation::new("restored-scanner-panics", format!("C19/restored-scanner-panics/{}", $name), format!("{} deserialised from {} panics on feed(CC ch {} #{} =1): {}", $name, doc, c, n, p)));
                                }
                            }
                        }
                    }
                }
            }
        }
    }};
}

fn scanners(chk: &Check, cnt: &Cnt) {
    let p14: [Vec<(u8, u8, u8)>; 3] = [vec![], vec![(0, 2, 8)], vec![(0, 2, 8), (1, 31, 127), (15, 0, 0)]];
    restored_scanner_probe!(chk, cnt, ControlChange14BitMessageScanner, "ControlChange14BitMessageScanner", ControlChange14BitMessageScanner::new(), p14);
    let pn: [Vec<(u8, u8, u8)>; 3] = [vec![], vec![(0, 99, 1), (0, 98, 2), (0, 38, 3)], vec![(0, 101, 1), (1, 100, 2), (15, 99, 127), (15, 98, 0), (15, 38, 5)]];
    restored_scanner_probe!(chk, cnt, ParameterNumberMessageScanner, "ParameterNumberMessageScanner", ParameterNumberMessageScanner::new(), pn);
    #[cfg(feature = "hm-std")]
    {
        let pp: [Vec<(u8, u8, u8)>; 3] = [vec![], vec![(0, 99, 1), (0, 98, 2), (0, 6, 3)], vec![(0, 101, 1), (1, 100, 2), (15, 99, 127), (15, 98, 0), (15, 38, 5)]];
        restored_scanner_probe!(chk, cnt, PollingParameterNumberMessageScanner, "PollingParameterNumberMessageScanner", PollingParameterNumberMessageScanner::new(core::time::Duration::from_millis(2)), pp);
    }
}

fn run_c19(chk: &Check, tier: Tier) {
    chk.set("helgoboss_midi_features", json!({"std": cfg!(feature = "hm-std"), "serde": true, "serde_repr": cfg!(feature = "hm-repr")}));
    chk.rule("with the serde feature, in the four combinations with / without std and serde_repr (one part each; ShortMessageType only with serde_repr): each of the six integer types through serde's primitive value deserializers (every u8/i8/u16/i16 value; boundary and truncation values for 32/64-bit; str, bool, unit, float, sequences, maps); composite types through serde_json::Value trees whose field values run over boundary sets that include the first invalid value of every field (RawShortMessage: all 257 status values x data grid; ControlChange14BitMessage: all 257 controller values, map and sequence form; ParameterNumberMessage: every combination of resolution flag, data type and value boundary; StructuredShortMessage: every variant x per-field {0,max,max+1,65536+5}; quarter frames, time code types, data types, type bytes 0..600). An accepted value must satisfy the constructors' invariants, equal a constructor-built value and survive its accessors/encoders; natural representations of valid values must round-trip. non-trivial = distinct inputs that violate a constructor precondition (must be rejected)");
    let cnt = Cnt { evals: AtomicU64::new(0), invalid_inputs: AtomicU64::new(0), lenient: AtomicU64::new(0) };
    ints_for::<U4>(chk, &cnt, tier);
    ints_for::<U7>(chk, &cnt, tier);
    ints_for::<U14>(chk, &cnt, tier);
    ints_for::<Channel>(chk, &cnt, tier);
    ints_for::<KeyNumber>(chk, &cnt, tier);
    ints_for::<ControllerNumber>(chk, &cnt, tier);
    composites(chk, &cnt, tier);
    roundtrips(chk, &cnt, tier);
    scanners(chk, &cnt);
    chk.add_eval(cnt.evals.load(Ordering::Relaxed));
    chk.add_nontrivial(cnt.invalid_inputs.load(Ordering::Relaxed));
    chk.set("inputs_accepted_leniently_with_a_valid_result", json!(cnt.lenient.load(Ordering::Relaxed)));
    chk.sample(json!({"type": "RawShortMessage", "input": [2, 64, 100], "required": "Err (status byte < 0x80)"}));
    chk.sample(json!({"type": "ControlChange14BitMessage", "input": {"channel": 0, "msb_controller_number": 64, "value": 5}, "required": "Err"}));
    chk.sample(json!({"type": "ParameterNumberMessage", "input": {"channel": 0, "number": 1, "value": 16383, "is_registered": false, "is_14_bit": false, "data_type": "DataEntry"}, "required": "Err (7-bit value > 127)"}));
    chk.sample(json!({"type": "U7", "input": "u16 128", "required": "Err"}));
}

fn main() {
    xs::silence_panics();
    let args: Vec<String> = std::env::args().collect();
    if args.len() < 2 {
        eprintln!("usage: hm <ID> [--tier quick|thorough]");
        std::process::exit(2);
    }
    let mut tier = Tier::Quick;
    if let Some(i) = args.iter().position(|a| a == "--tier") {
        tier = args.get(i + 1).and_then(|t| Tier::parse(t)).unwrap_or(Tier::Quick);
    }
    if tier == Tier::Quick {
        std::env::set_var("XS_MAX_WALL_S", "120");
        std::env::set_var("XS_MAX_STATES", "3000000");
    }
    let code = match args[1].as_str() {
        "C19" => {
            let chk = Check::new("C19", PART, tier, "exploration");
            run_c19(&chk, tier);
            chk.finish()
        }
        other => {
            eprintln!("unknown check {}", other);
            2
        }
    };
    std::process::exit(code);
}
