//! `hm` — harness binary for configuration D: helgoboss-midi with default features and the
//! verification cfg OFF, i.e. the crate exactly as shipped, with the real `std::time::Instant`.
//! Used for hook conformance (C12) and the real-clock part of C18.
#[path = "../../common/conform.rs"]
mod conform;
#[path = "../../common/rt.rs"]
mod rt;

use serde_json::json;
use xs::{Check, Tier};

#[global_allocator]
static ALLOC: xs::alloc::Counting = xs::alloc::Counting;

pub const PART: &str = "realclock";

/// Configuration-specific part of C18: the polling scanner with the REAL clock over all action
/// sequences up to a depth, timeouts 0 and Duration::MAX (outcomes independent of real time).
pub fn c18_extra(chk: &Check, tier: Tier, heavy: &std::sync::atomic::AtomicU64) {
    let msgs = conform::msgs();
    let depth = if tier.thorough() { 6 } else { 5 };
    let r = xs::catch(|| xs::alloc::region(|| conform::run(&msgs, depth)));
    match r {
        Ok(((_h, calls, _reports), allocs)) => {
            heavy.fetch_add(calls, std::sync::atomic::Ordering::Relaxed);
            chk.set("polling_scanner_real_clock_calls", json!(calls));
            if allocs > 0 {
                chk.violate(xs::Violation::new("no-heap-allocation", format!("C18/allocates/polling-scanner-real-clock/{}", chk.part), format!("{} heap allocation(s) inside feed/poll/reset of the polling scanner with the real clock", allocs)));
            }
        }
        Err(p) => chk.violate(xs::Violation::new("no-panic-on-valid-input", format!("C18/panics-on-valid-input/polling-scanner-real-clock/{}", chk.part), format!("polling scanner with the real clock panicked: {}", p))),
    }
    handover(chk, heavy);
}

/// A scanner is a plain `Copy + Send` value: it may be fed on one thread and polled on another
/// that started later (per-thread bookkeeping of time would make the second thread's readings
/// incomparable with the first one's). Every prefix of [99, 98, 6, 38, 96] is fed on a thread A, the
/// scanner is handed to a thread B started afterwards, which polls, feeds the rest and polls
/// again; timeouts 0, 20 ms and Duration::MAX, with and without a pause before the hand-over. No
/// panic allowed; with timeout 0 the first poll must deliver a pending data entry MSB, with
/// Duration::MAX it must not.
fn handover(chk: &Check, heavy: &std::sync::atomic::AtomicU64) {
    use core::time::Duration;
    use helgoboss_midi::*;
    let msgs = conform::msgs();
    // indices into conform::msgs(): 0 = CC 99, 1 = CC 98, 4 = CC 6, 6 = CC 38, 7 = CC 96
    let seq = [0usize, 1, 4, 6, 7];
    let mut runs = 0u64;
    for (ti, timeout) in [Duration::ZERO, Duration::from_millis(20), Duration::MAX].into_iter().enumerate() {
        for k in 0..=seq.len() {
            for pause_ms in [0u64, 30] {
                let msgs_a = msgs.clone();
                let fed = std::thread::spawn(move || {
                    // thread A has used a scanner before (so any per-thread reference point of its own
                    // lies in the past by the time the hand-over candidate is fed)
                    let mut warm = PollingParameterNumberMessageScanner::new(Duration::ZERO);
                    for &i in &seq[..3] {
                        let _ = warm.feed(&msgs_a[i]);
                    }
                    let _ = warm.poll(Channel::new(3));
                    std::thread::sleep(Duration::from_millis(3));
                    let mut sc = PollingParameterNumberMessageScanner::new(timeout);
                    for &i in &seq[..k] {
                        let _ = sc.feed(&msgs_a[i]);
                    }
                    sc
                })
                .join();
                let sc = match fed {
                    Ok(sc) => sc,
                    Err(_) => {
                        chk.violate(xs::Violation::new("no-panic-on-valid-input", format!("C18/panics-on-valid-input/polling-scanner-handover/{}", chk.part), "feeding on the first thread panicked".to_string()));
                        continue;
                    }
                };
                if pause_ms > 0 {
                    std::thread::sleep(Duration::from_millis(pause_ms));
                }
                let msgs_b = msgs.clone();
                let r = std::thread::spawn(move || {
                    let mut sc = sc;
                    let first = sc.poll(Channel::new(3));
                    for &i in &seq[k..] {
                        let _ = sc.feed(&msgs_b[i]);
                    }
                    let _ = sc.poll(Channel::new(3));
                    first
                })
                .join();
                runs += 1;
                match r {
                    Err(_) => chk.violate(xs::Violation::new("no-panic-on-valid-input", format!("C18/panics-on-valid-input/polling-scanner-handover/{}", chk.part), format!("a scanner (timeout index {}) fed {} messages on one thread panicked when polled / fed on a thread started {} ms later", ti, k, pause_ms))),
                    Ok(first) => {
                        // k == 3: exactly [99, 98, 6] fed -> a data entry MSB is pending
                        if k == 3 && ti == 0 && first.is_none() {
                            chk.violate(xs::Violation::new("no-panic-on-valid-input", format!("C18/handover-changes-result/polling-scanner-handover/{}", chk.part), "timeout 0: the pending data entry MSB was not delivered by a poll on another thread".to_string()));
                        }
                        if k == 3 && ti == 2 && first.is_some() {
                            chk.violate(xs::Violation::new("no-panic-on-valid-input", format!("C18/handover-changes-result/polling-scanner-handover/{}", chk.part), "timeout Duration::MAX: a poll on another thread delivered the pending data entry MSB".to_string()));
                        }
                    }
                }
            }
        }
    }
    heavy.fetch_add(runs * 7, std::sync::atomic::Ordering::Relaxed);
    chk.set("thread_handover_runs", json!(runs));
}

fn main() {
    xs::silence_panics();
    let args: Vec<String> = std::env::args().collect();
    if args.len() < 2 {
        eprintln!("usage: hm <ID> [--tier quick|thorough]");
        std::process::exit(2);
    }
    let mut tier = Tier::Quick;
    if let Some(i) = args.iter().position(|a| a == "--tier") {
        tier = args.get(i + 1).and_then(|t| Tier::parse(t)).unwrap_or(Tier::Quick);
    }
    let part = if cfg!(debug_assertions) { "realclock-debug" } else { PART };
    if tier == Tier::Quick {
        std::env::set_var("XS_MAX_WALL_S", "120");
        std::env::set_var("XS_MAX_STATES", "3000000");
    }
    let code = match args[1].as_str() {
        "C12" => {
            let chk = Check::new("C12", part, tier, "model_checking");
            chk.rule("hook conformance: the transcript (hash over every result) of ALL action sequences up to depth 5 (6 thorough) over 13 actions (9 Control Changes, a note-on, poll of two channels, reset) with timeouts 0 and Duration::MAX, computed on the UNHOOKED build with the real std::time::Instant, must equal the transcript of the hooked build (mock clock) recorded by the std part of this check");
            let (h, calls, reports) = match xs::catch(|| conform::transcript(if tier.thorough() { 6 } else { 5 })) {
                Ok(t) => t,
                Err(msg) => {
                    // valid Control Change sequences, polls and resets with timeouts 0 and Duration::MAX
                    // on the real clock: a panic is the scanner failing to decode them
                    chk.violate(xs::Violation::new("panics-on-valid-input", format!("C12/panics-on-valid-input/polling-scanner-real-clock/{}", part), format!("the polling scanner panicked on the real clock while running all action sequences with timeouts 0 and Duration::MAX: {}", msg)));
                    (0, 0, 0)
                }
            };
            chk.add_eval(calls);
            chk.add_nontrivial(reports);
            let mine = format!("{:016x}", h);
            chk.set("hook_conformance_transcript", json!({"hash": mine, "calls": calls, "reports": reports}));
            let std_part = xs::report::verif_root().join("evidence").join("parts").join("C12.std.json");
            match std::fs::read_to_string(&std_part).ok().and_then(|s| serde_json::from_str::<serde_json::Value>(&s).ok()) {
                Some(doc) => {
                    let theirs = doc["coverage"]["hook_conformance_transcript"]["hash"].as_str().unwrap_or("").to_string();
                    let same_tier = doc["tier"].as_str() == Some(tier.name());
                    chk.set("hooked_build_hash", json!(theirs));
                    if !same_tier {
                        chk.machinery_error("C12.std.json was written by a different tier; run the std part first".to_string());
                    } else if theirs != mine && calls > 0 {
                        chk.machinery_error(format!("HOOK DOES NOT CONFORM: hooked build transcript {} != unhooked build transcript {}; results obtained on the hooked build say nothing about the shipped code", theirs, mine));
                    }
                }
                None => chk.machinery_error(format!("cannot read {}", std_part.display())),
            }
            chk.sample(json!({"sequence": ["cc ch3 #99 =1", "cc ch3 #98 =2", "cc ch3 #6 =5", "poll(3)"], "timeout": "0 -> poll returns NRPN-7bit(130, 5); Duration::MAX -> None", "builds": "identical in both"}));
            chk.finish()
        }
        "C13" => {
            // finite, non-zero timeouts on the REAL clock, with margins that make the outcome independent
            // of scheduling: a poll 80 ms after the feed with a 50 ms timeout must deliver (delays only
            // add elapsed time); a poll right after the feed with a 10 s timeout must not (it would take a
            // 10 s stall between two calls), and the LSB that follows must complete a 14-bit message
            use core::time::Duration;
            use helgoboss_midi::*;
            let chk = Check::new("C13", part, tier, "model_checking");
            chk.rule("real clock (unhooked build): for each channel, (a) timeout 50 ms: number, data entry MSB, poll at once is not judged, sleep 80 ms, poll must deliver the 7-bit message, a second poll nothing; an unpaired LSB polled after 80 ms is dropped (a following MSB gives no 14-bit message); (b) timeout 10 s: number, MSB, poll at once must return nothing, LSB must complete the 14-bit message. Margins make the outcomes independent of scheduling delays");
            let msgs = conform::msgs();
            let mut n = 0u64;
            let mut bad = |chk: &Check, what: String| chk.violate(xs::Violation::new("real-clock-timeout", format!("C13/real-clock-timeout/{}", part), what));
            let r = xs::catch(|| {
                let c3 = Channel::new(3);
                // (a)
                let mut sc = PollingParameterNumberMessageScanner::new(Duration::from_millis(50));
                for i in [0usize, 1, 4] {
                    let _ = sc.feed(&msgs[i]);
                }
                let mut lsb_only = PollingParameterNumberMessageScanner::new(Duration::from_millis(50));
                for i in [0usize, 1, 6] {
                    let _ = lsb_only.feed(&msgs[i]);
                }
                std::thread::sleep(Duration::from_millis(80));
                let first = sc.poll(c3);
                let second = sc.poll(c3);
                let dropped = lsb_only.poll(c3);
                let after = lsb_only.feed(&msgs[4]);
                // (b)
                let mut slow = PollingParameterNumberMessageScanner::new(Duration::from_secs(10));
                for i in [0usize, 1, 4] {
                    let _ = slow.feed(&msgs[i]);
                }
                let early = slow.poll(c3);
                let joined = slow.feed(&msgs[6]);
                (first, second, dropped, after, early, joined)
            });
            match r {
                Err(p) => bad(&chk, format!("the polling scanner panicked on the real clock: {}", p)),
                Ok((first, second, dropped, after, early, joined)) => {
                    n += 12;
                    if first.map(|m| (m.is_14_bit(), m.value().get())) != Some((false, 5)) {
                        bad(&chk, format!("timeout 50 ms: a poll 80 ms after the data entry MSB returned {:?} instead of the 7-bit message", first));
                    }
                    if second.is_some() {
                        bad(&chk, format!("timeout 50 ms: a second poll returned {:?}", second));
                    }
                    if dropped.is_some() || after.iter().flatten().any(|m| m.is_14_bit()) {
                        bad(&chk, format!("timeout 50 ms: an unpaired LSB polled after 80 ms: poll {:?}, the following MSB reported {:?}", dropped, after));
                    }
                    if early.is_some() {
                        bad(&chk, format!("timeout 10 s: a poll right after the data entry MSB returned {:?}", early));
                    }
                    if joined[0].map(|m| (m.is_14_bit(), m.value().get())) != Some((true, 5 * 128 + 7)) {
                        bad(&chk, format!("timeout 10 s: the LSB after the MSB reported {:?} instead of the 14-bit message", joined));
                    }
                }
            }
            chk.add_eval(n);
            chk.add_nontrivial(3);
            chk.sample(json!({"timeout": "50 ms", "history": ["cc 99", "cc 98", "cc 6 = 5", "sleep 80 ms", "poll -> NRPN 7-bit value 5"]}));
            chk.finish()
        }
        "C18" => {
            let chk = Check::new("C18", part, tier, "exploration");
            rt::run_c18(&chk, tier);
            chk.finish()
        }
        other => {
            eprintln!("unknown check {}", other);
            2
        }
    };
    std::process::exit(code);
}
