//! `hm` — harness binary for configuration D: helgoboss-midi with default features and the
//! verification cfg OFF, i.e. the crate exactly as shipped, with the real `std::time::Instant`.
//! Used for hook conformance (C12) and the real-clock part of C18.
#[path = "../../common/conform.rs"]
mod conform;
#[path = "../../common/rt.rs"]
mod rt;

use serde_json::json;
use xs::{Check, Tier};

#[global_allocator]
static ALLOC: xs::alloc::Counting = xs::alloc::Counting;

pub const PART: &str = "realclock";

/// Configuration-specific part of C18: the polling scanner with the REAL clock over all action
/// sequences up to a depth, timeouts 0 and Duration::MAX (outcomes independent of real time).
pub fn c18_extra(chk: &Check, tier: Tier, heavy: &std::sync::atomic::AtomicU64) {
    let msgs = conform::msgs();
    let depth = if tier.thorough() { 6 } else { 5 };
    let r = xs::catch(|| xs::alloc::region(|| conform::run(&msgs, depth)));
    match r {
        Ok(((_h, calls, _reports), allocs)) => {
            heavy.fetch_add(calls, std::sync::atomic::Ordering::Relaxed);
            chk.set("polling_scanner_real_clock_calls", json!(calls));
            if allocs > 0 {
                chk.violate(xs::Violation::new("no-heap-allocation", format!("C18/allocates/polling-scanner-real-clock/{}", chk.part), format!("{} heap allocation(s) inside feed/poll/reset of the polling scanner with the real clock", allocs)));
            }
        }
        Err(p) => chk.violate(xs::Violation::new("no-panic-on-valid-input", format!("C18/panics-on-valid-input/polling-scanner-real-clock/{}", chk.part), format!("polling scanner with the real clock panicked: {}", p))),
    }
}

fn main() {
    xs::silence_panics();
    let args: Vec<String> = std::env::args().collect();
    if args.len() < 2 {
        eprintln!("usage: hm <ID> [--tier quick|thorough]");
        std::process::exit(2);
    }
    let mut tier = Tier::Quick;
    if let Some(i) = args.iter().position(|a| a == "--tier") {
        tier = args.get(i + 1).and_then(|t| Tier::parse(t)).unwrap_or(Tier::Quick);
    }
    let part = if cfg!(debug_assertions) { "realclock-debug" } else { PART };
    if tier == Tier::Quick {
        std::env::set_var("XS_MAX_WALL_S", "120");
        std::env::set_var("XS_MAX_STATES", "3000000");
    }
    let code = match args[1].as_str() {
        "C12" => {
            let chk = Check::new("C12", part, tier, "model_checking");
            chk.rule("hook conformance: the transcript (hash over every result) of ALL action sequences up to depth 5 (6 thorough) over 13 actions (9 Control Changes, a note-on, poll of two channels, reset) with timeouts 0 and Duration::MAX, computed on the UNHOOKED build with the real std::time::Instant, must equal the transcript of the hooked build (mock clock) recorded by the std part of this check");
            let (h, calls, reports) = match xs::catch(|| conform::transcript(if tier.thorough() { 6 } else { 5 })) {
                Ok(t) => t,
                Err(msg) => {
                    // valid Control Change sequences, polls and resets with timeouts 0 and Duration::MAX
                    // on the real clock: a panic is the scanner failing to decode them
                    chk.violate(xs::Violation::new("panics-on-valid-input", format!("C12/panics-on-valid-input/polling-scanner-real-clock/{}", part), format!("the polling scanner panicked on the real clock while running all action sequences with timeouts 0 and Duration::MAX: {}", msg)));
                    (0, 0, 0)
                }
            };
            chk.add_eval(calls);
            chk.add_nontrivial(reports);
            let mine = format!("{:016x}", h);
            chk.set("hook_conformance_transcript", json!({"hash": mine, "calls": calls, "reports": reports}));
            let std_part = xs::report::verif_root().join("evidence").join("parts").join("C12.std.json");
            match std::fs::read_to_string(&std_part).ok().and_then(|s| serde_json::from_str::<serde_json::Value>(&s).ok()) {
                Some(doc) => {
                    let theirs = doc["coverage"]["hook_conformance_transcript"]["hash"].as_str().unwrap_or("").to_string();
                    let same_tier = doc["tier"].as_str() == Some(tier.name());
                    chk.set("hooked_build_hash", json!(theirs));
                    if !same_tier {
                        chk.machinery_error("C12.std.json was written by a different tier; run the std part first".to_string());
                    } else if theirs != mine && calls > 0 {
                        chk.machinery_error(format!("HOOK DOES NOT CONFORM: hooked build transcript {} != unhooked build transcript {}; results obtained on the hooked build say nothing about the shipped code", theirs, mine));
                    }
                }
                None => chk.machinery_error(format!("cannot read {}", std_part.display())),
            }
            chk.sample(json!({"sequence": ["cc ch3 #99 =1", "cc ch3 #98 =2", "cc ch3 #6 =5", "poll(3)"], "timeout": "0 -> poll returns NRPN-7bit(130, 5); Duration::MAX -> None", "builds": "identical in both"}));
            chk.finish()
        }
        "C18" => {
            let chk = Check::new("C18", part, tier, "exploration");
            rt::run_c18(&chk, tier);
            chk.finish()
        }
        other => {
            eprintln!("unknown check {}", other);
            2
        }
    };
    std::process::exit(code);
}
