//! `hm` for a 32-bit target (run by Miri): the pointer-width dependent part of C04 / C05.
//!
//! Every fallible conversion into the six restricted integer types from every primitive source
//! type, over a truncation alphabet (low parts x high-bit patterns, cast to the source type), judged
//! by reference arithmetic on i128/u128; every conversion out of them for every value; a range audit
//! of factory / encoder / scanner outputs on boundary arguments. `usize`/`isize` are 32 bits wide
//! here, so a conversion that detours through them truncates - which no 64-bit run can see.
use core::convert::TryFrom;
use core::fmt::Debug;
use helgoboss_midi::*;

#[path = "../../common/xt.rs"]
mod xt;

struct Out {
    id: String,
    evals: u64,
    in_range: u64,
    out_of_range: u64,
    violations: Vec<(String, String, String)>, // (rule, signature, detail) - first per signature
    counts: Vec<u64>,
}

impl Out {
    fn vio(&mut self, rule: &str, cls: &str, detail: String) {
        let sig = format!("{}/{}/{}/p32", self.id, rule, cls);
        if let Some(i) = self.violations.iter().position(|v| v.1 == sig) {
            self.counts[i] += 1;
        } else {
            self.violations.push((rule.to_string(), sig, detail));
            self.counts.push(1);
        }
    }
}

fn esc(s: &str) -> String {
    let mut o = String::new();
    for c in s.chars() {
        match c {
            '"' => o.push_str("\\\""),
            '\\' => o.push_str("\\\\"),
            '\n' => o.push_str("\\n"),
            c if (c as u32) < 0x20 => o.push_str(&format!("\\u{:04x}", c as u32)),
            c => o.push(c),
        }
    }
    o
}

/// (is negative, magnitude)
trait Prim: Copy + Debug {
    const NAME: &'static str;
    fn cast(v: u128) -> Self;
    fn wide(self) -> (bool, u128);
}
macro_rules! prim_u {
    ($($t:ty),*) => {$(impl Prim for $t {
        const NAME: &'static str = stringify!($t);
        fn cast(v: u128) -> Self { v as $t }
        fn wide(self) -> (bool, u128) { (false, self as u128) }
    })*};
}
macro_rules! prim_i {
    ($($t:ty),*) => {$(impl Prim for $t {
        const NAME: &'static str = stringify!($t);
        fn cast(v: u128) -> Self { v as $t }
        fn wide(self) -> (bool, u128) { (self < 0, self.unsigned_abs() as u128) }
    })*};
}
prim_u!(u8, u16, u32, u64, u128, usize);
prim_i!(i8, i16, i32, i64, i128, isize);

trait NT: Copy + Debug {
    const NAME: &'static str;
    const MAXV: u16;
    fn getw(self) -> u16;
    fn make(v: u16) -> Self;
}
macro_rules! nt8 {
    ($($t:ident: $max:expr),*) => {$(impl NT for $t {
        const NAME: &'static str = stringify!($t);
        const MAXV: u16 = $max;
        fn getw(self) -> u16 { self.get() as u16 }
        fn make(v: u16) -> Self { <$t>::new(v as u8) }
    })*};
}
nt8!(U4: 15, U7: 127, Channel: 15, KeyNumber: 127, ControllerNumber: 127);
impl NT for U14 {
    const NAME: &'static str = "U14";
    const MAXV: u16 = 16383;
    fn getw(self) -> u16 { self.get() }
    fn make(v: u16) -> Self { U14::new(v) }
}

fn alphabet() -> Vec<u128> {
    let mut lows: Vec<u128> = Vec::new();
    lows.extend([0u128, 1, 2, 14, 15, 16, 17, 126, 127, 128, 129, 254, 255, 256, 257, 16382, 16383, 16384, 16385, 32767, 32768, 65534, 65535]);
    let ones = u128::MAX;
    let highs: [u128; 16] = [
        0, 1 << 16, 1 << 17, 1 << 31, 1 << 32, (1 << 32) | (1 << 16), 1 << 33, 1 << 47, 1 << 63, 1 << 64, 1 << 65, 1 << 127,
        ones << 16, ones << 32, ones << 64, (ones << 16) & !(1u128 << 31),
    ];
    let mut v = Vec::with_capacity(lows.len() * highs.len());
    for h in highs {
        for &l in &lows {
            v.push(h | l);
        }
    }
    v
}

fn check_into<T: NT + TryFrom<P>, P: Prim>(o: &mut Out, alpha: &[u128]) {
    let cls = format!("{}->{}", P::NAME, T::NAME);
    let mut last: Option<(bool, u128)> = None;
    for &a in alpha {
        let p = P::cast(a);
        let w = p.wide();
        if last == Some(w) {
            continue;
        }
        last = Some(w);
        let (neg, mag) = w;
        let in_range = !neg && mag <= T::MAXV as u128;
        o.evals += 1;
        if in_range { o.in_range += 1 } else { o.out_of_range += 1 }
        match T::try_from(p).ok().map(|t| t.getw()) {
            None => {
                if in_range {
                    o.vio("rejects-in-range-input", &cls, format!("{}::try_from({:?}{}) failed although the value is in 0..={} (32-bit target)", T::NAME, p, P::NAME, T::MAXV));
                }
            }
            Some(g) => {
                if !in_range {
                    o.vio("accepts-out-of-range-input", &cls, format!("{}::try_from({:?}{}) succeeded with inner value {} although the input is outside 0..={} (32-bit target)", T::NAME, p, P::NAME, g, T::MAXV));
                } else if g as u128 != mag {
                    o.vio("value-not-preserved", &cls, format!("{}::try_from({:?}{}) holds {} (32-bit target)", T::NAME, p, P::NAME, g));
                }
            }
        }
    }
}

fn check_out<T: NT, P: Prim + From<T>>(o: &mut Out) {
    let cls = format!("{}->{}", T::NAME, P::NAME);
    let mut v = 0u16;
    loop {
        let t = T::make(v);
        let w = P::from(t).wide();
        o.evals += 1;
        o.in_range += 1;
        if w != (false, v as u128) {
            o.vio("value-not-preserved", &cls, format!("{}::from({}({})) = {}{} (32-bit target)", P::NAME, T::NAME, v, if w.0 { "-" } else { "" }, w.1));
        }
        if v == T::MAXV {
            break;
        }
        // U14: every value up to 300 and from 16300, every 61st in between
        v = if T::MAXV > 127 && v >= 300 && v < 16300 { (v + 61).min(16300) } else { v + 1 };
    }
}

macro_rules! into_all {
    ($o:expr, $a:expr, $T:ty; $($P:ty),*) => {$( check_into::<$T, $P>($o, $a); )*};
}
macro_rules! out_all {
    ($o:expr, $T:ty; $($P:ty),*) => {$( check_out::<$T, $P>($o); )*};
}

fn range_audit(o: &mut Out) {
    // data bytes of factory / encoder outputs and fields of scanner outputs on boundary arguments
    let bad = |what: String, o: &mut Out| o.vio("field-out-of-range", "range-audit", what);
    for c in [0u8, 7, 15] {
        for v in [0u16, 1, 127, 128, 8191, 8192, 16383] {
            let m = RawShortMessage::pitch_bend_change(Channel::new(c), U14::new(v));
            let b = m.to_bytes();
            o.evals += 1;
            if b.1.get() > 127 || b.2.get() > 127 || m.pitch_bend_value() != Some(U14::new(v)) {
                bad(format!("pitch_bend_change(ch {}, {}) -> {:?}", c, v, b), o);
            }
            for n in [0u8, 1, 31] {
                let cc = ControlChange14BitMessage::new(Channel::new(c), ControllerNumber::new(n), U14::new(v));
                let ms: [RawShortMessage; 2] = cc.to_short_messages();
                let mut sc = ControlChange14BitMessageScanner::new();
                let r1 = sc.feed(&ms[0]);
                let r2 = sc.feed(&ms[1]);
                o.evals += 1;
                if r1.is_some() || r2 != Some(cc) || ms.iter().any(|m| m.data_byte_2().get() > 127) {
                    bad(format!("14-bit CC (ch {}, cn {}, {}) -> {:?} -> scanner {:?}, {:?}", c, n, v, ms, r1, r2), o);
                }
            }
            for number in [0u16, 1, 128, 16383] {
                let p = ParameterNumberMessage::registered_14_bit(Channel::new(c), U14::new(number), U14::new(v));
                let ms: [Option<RawShortMessage>; 4] = p.to_short_messages(DataEntryByteOrder::LsbFirst);
                let mut sc = ParameterNumberMessageScanner::new();
                let mut last = None;
                for m in ms.iter().flatten() {
                    if let Some(x) = sc.feed(m) {
                        last = Some(x);
                    }
                }
                o.evals += 1;
                if last != Some(p) || ms.iter().flatten().any(|m| m.data_byte_2().get() > 127 || m.data_byte_1().get() > 127) {
                    bad(format!("(N)RPN (ch {}, number {}, {}) -> {:?} -> scanner {:?}", c, number, v, ms, last), o);
                }
            }
        }
    }
}

/// `hm abort-probe <constructor> <type byte>`: one call of a generic constructor, in a build with
/// panic = "abort" (native, not Miri). Prints RETURNED and the bytes if the call returns; a
/// wrong-category call must kill the process instead.
fn abort_probe(ctor: &str, type_byte: u8) -> ! {
    let t = ShortMessageType::try_from(type_byte).expect("harness: not a type byte");
    let m = match ctor {
        "channel_message" => RawShortMessage::channel_message(t, Channel::new(5), U7::new(1), U7::new(2)),
        "system_common_message" => RawShortMessage::system_common_message(t, U7::new(1), U7::new(2)),
        _ => RawShortMessage::system_real_time_message(t),
    };
    let b = m.to_bytes();
    println!("RETURNED {} {} {}", b.0, b.1.get(), b.2.get());
    std::process::exit(0)
}

fn main() {
    let args: Vec<String> = std::env::args().collect();
    if args.len() >= 4 && args[1] == "abort-probe" {
        abort_probe(&args[2], args[3].parse().unwrap_or(0));
    }
    let id = args.get(1).cloned().unwrap_or_else(|| "C04".to_string());
    if let Some((h, calls)) = xt::transcript(&id) {
        // a scanner / encoder check: only the cross-target transcript
        println!(
            "P32 TRANSCRIPT {{\"pointer_width\": {}, \"big_endian\": {}, \"hash\": \"{:016x}\", \"calls\": {}}}",
            core::mem::size_of::<usize>() * 8, cfg!(target_endian = "big"), h, calls
        );
        println!("P32 DONE");
        return;
    }
    let mut o = Out { id: id.clone(), evals: 0, in_range: 0, out_of_range: 0, violations: Vec::new(), counts: Vec::new() };
    let a = alphabet();
    let o_ref = &mut o;
    into_all!(o_ref, &a, U4; u8, u16, i16, u32, i32, u64, i64, u128, i128, usize, isize);
    into_all!(o_ref, &a, U7; u8, u16, i16, u32, i32, u64, i64, u128, i128, usize, isize);
    into_all!(o_ref, &a, Channel; u8, u16, i16, u32, i32, u64, i64, u128, i128, usize, isize);
    into_all!(o_ref, &a, KeyNumber; u8, u16, i16, u32, i32, u64, i64, u128, i128, usize, isize);
    into_all!(o_ref, &a, ControllerNumber; u8, u16, i16, u32, i32, u64, i64, u128, i128, usize, isize);
    into_all!(o_ref, &a, U14; u8, i8, u16, u32, i32, u64, i64, u128, i128, usize);
    out_all!(o_ref, U4; u8, i8, u16, i16, u32, i32, u64, i64, u128, i128, usize, isize);
    out_all!(o_ref, U7; u8, i8, u16, i16, u32, i32, u64, i64, u128, i128, usize, isize);
    out_all!(o_ref, Channel; u8, i8, u16, i16, u32, i32, u64, i64, u128, i128, usize, isize);
    out_all!(o_ref, KeyNumber; u8, i8, u16, i16, u32, i32, u64, i64, u128, i128, usize, isize);
    out_all!(o_ref, ControllerNumber; u8, i8, u16, i16, u32, i32, u64, i64, u128, i128, usize, isize);
    out_all!(o_ref, U14; u16, i16, u32, i32, u64, i64, u128, i128, usize, isize);
    if id == "C04" {
        range_audit(o_ref);
    }
    println!(
        "P32 EVIDENCE {{\"big_endian\": false, \"pointer_width\": {}, \"evaluations\": {}, \"in_range_inputs\": {}, \"out_of_range_inputs\": {}, \"alphabet\": {}}}",
        core::mem::size_of::<usize>() * 8, o.evals, o.in_range, o.out_of_range, a.len()
    );
    for (i, (rule, sig, detail)) in o.violations.iter().enumerate() {
        println!("P32 VIOLATION {{\"rule\": \"{}\", \"signature\": \"{}\", \"occurrences\": {}, \"detail\": \"{}\"}}", esc(rule), esc(sig), o.counts[i], esc(detail));
    }
    println!("P32 DONE");
}
