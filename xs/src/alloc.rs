//! Allocation-counting global allocator. A harness binary installs it with
//! `#[global_allocator] static A: xs::alloc::Counting = xs::alloc::Counting;`
//! and brackets API regions with [`region`].
use std::alloc::{GlobalAlloc, Layout, System};
use std::cell::Cell;

thread_local! {
    static COUNT: Cell<u64> = const { Cell::new(0) };
}

pub struct Counting;

#[inline]
fn bump() {
    // try_with: during thread teardown the TLS slot may be gone; ignore then.
    let _ = COUNT.try_with(|c| c.set(c.get() + 1));
}

unsafe impl GlobalAlloc for Counting {
    unsafe fn alloc(&self, l: Layout) -> *mut u8 {
        bump();
        System.alloc(l)
    }
    unsafe fn alloc_zeroed(&self, l: Layout) -> *mut u8 {
        bump();
        System.alloc_zeroed(l)
    }
    unsafe fn realloc(&self, p: *mut u8, l: Layout, n: usize) -> *mut u8 {
        bump();
        System.realloc(p, l, n)
    }
    unsafe fn dealloc(&self, p: *mut u8, l: Layout) {
        System.dealloc(p, l)
    }
}

/// Number of alloc/realloc calls made by this thread so far.
pub fn count() -> u64 {
    COUNT.with(|c| c.get())
}

/// Run `f` and return (result, number of heap allocations made by this thread inside `f`).
#[inline]
pub fn region<R>(f: impl FnOnce() -> R) -> (R, u64) {
    let before = count();
    let r = f();
    let after = count();
    (r, after - before)
}

/// True iff the counting allocator is really installed in this binary (probe by allocating).
pub fn installed() -> bool {
    let (_b, n) = region(|| std::hint::black_box(Box::new(0u64)));
    n > 0
}
