//! `xs` — a small explicit-state search engine that drives REAL code, plus the plumbing every
//! check of this verification suite shares (violations, evidence files, known findings, replay
//! artefacts, an allocation-counting allocator, a panic silencer).
//!
//! The engine knows nothing about MIDI; the harness crates implement [`System`] on top of the
//! real helgoboss-midi objects.

pub mod alloc;
pub mod engine;
pub mod report;
#[cfg(feature = "sr")]
pub mod sr;

pub use engine::{explore, Found, Limits, Outcome, Step, System};
pub use report::{Check, Tier, Violation};

use std::hash::{Hash, Hasher};

/// 64-bit FNV-1a style hasher with a seed; used (twice, with different seeds) to build 128-bit
/// state fingerprints from `Debug` renderings without allocating.
#[derive(Clone, Copy)]
pub struct Fnv(pub u64);

impl Fnv {
    pub fn new(seed: u64) -> Fnv {
        Fnv(0xcbf29ce484222325 ^ seed.wrapping_mul(0x9E3779B97F4A7C15))
    }
}

impl Hasher for Fnv {
    fn finish(&self) -> u64 {
        // final avalanche
        let mut z = self.0;
        z ^= z >> 33;
        z = z.wrapping_mul(0xff51afd7ed558ccd);
        z ^= z >> 33;
        z = z.wrapping_mul(0xc4ceb9fe1a85ec53);
        z ^= z >> 33;
        z
    }
    fn write(&mut self, bytes: &[u8]) {
        for b in bytes {
            self.0 ^= *b as u64;
            self.0 = self.0.wrapping_mul(0x100000001b3);
        }
    }
}

/// Hash any `Hash` value to a non-zero u64 (0 is reserved for "no observation").
pub fn h64<T: Hash>(v: &T) -> u64 {
    let mut h = Fnv::new(1);
    v.hash(&mut h);
    let r = h.finish();
    if r == 0 {
        1
    } else {
        r
    }
}

/// 128-bit fingerprint of a byte string: two independently keyed 64-bit lanes, eight bytes per
/// step (multiply-rotate mixing, murmur-style finaliser).
pub fn fp128(bytes: &[u8]) -> u128 {
    #[inline]
    fn fin(mut z: u64) -> u64 {
        z ^= z >> 33;
        z = z.wrapping_mul(0xff51afd7ed558ccd);
        z ^= z >> 33;
        z = z.wrapping_mul(0xc4ceb9fe1a85ec53);
        z ^= z >> 33;
        z
    }
    let mut a: u64 = 0x9E3779B97F4A7C15 ^ (bytes.len() as u64);
    let mut b: u64 = 0xC2B2AE3D27D4EB4F ^ ((bytes.len() as u64) << 32);
    let mut chunks = bytes.chunks_exact(8);
    for c in &mut chunks {
        let w = u64::from_le_bytes([c[0], c[1], c[2], c[3], c[4], c[5], c[6], c[7]]);
        a = (a ^ w).wrapping_mul(0x87C37B91114253D5).rotate_left(31);
        b = (b.rotate_left(27) ^ w.wrapping_mul(0x4CF5AD432745937F)).wrapping_mul(0x52DCE729);
        b = b.wrapping_add(0x38495AB5) ^ (b >> 29);
    }
    let rem = chunks.remainder();
    if !rem.is_empty() {
        let mut buf = [0u8; 8];
        buf[..rem.len()].copy_from_slice(rem);
        let w = u64::from_le_bytes(buf) ^ ((rem.len() as u64) << 56);
        a = (a ^ w).wrapping_mul(0x87C37B91114253D5).rotate_left(31);
        b = (b.rotate_left(27) ^ w.wrapping_mul(0x4CF5AD432745937F)).wrapping_mul(0x52DCE729);
        b = b.wrapping_add(0x38495AB5) ^ (b >> 29);
    }
    ((fin(a) as u128) << 64) | (fin(b ^ a.rotate_left(17)) as u128)
}

/// Run `f`, converting a panic into `Err(message)`. The process-wide panic hook is silenced by
/// [`silence_panics`], which checks call once at start-up.
pub fn catch<R>(f: impl FnOnce() -> R) -> Result<R, String> {
    match std::panic::catch_unwind(std::panic::AssertUnwindSafe(f)) {
        Ok(r) => Ok(r),
        Err(e) => {
            let msg = if let Some(s) = e.downcast_ref::<&str>() {
                s.to_string()
            } else if let Some(s) = e.downcast_ref::<String>() {
                s.clone()
            } else {
                "<non-string panic payload>".to_string()
            };
            Err(msg)
        }
    }
}

/// Install a panic hook that prints nothing (panics are expected observations in several checks
/// and are always caught by [`catch`]).
pub fn silence_panics() {
    std::panic::set_hook(Box::new(|_| {}));
}

pub fn n_threads() -> usize {
    std::thread::available_parallelism().map(|n| n.get()).unwrap_or(4)
}
