//! Adapter: any [`System`] as a `stateright::Model`, so that stateright's own BFS can be run as
//! an independent second search whose unique-state count must agree with `xs`.
use crate::engine::System;
use stateright::{Checker, Model, Property};
use std::hash::{Hash, Hasher};
use std::sync::Arc;

pub struct SrModel<S: System + 'static>(pub Arc<S>);

pub struct SrState<S: System> {
    pub st: S::State,
    pub key: S::Key,
    pub bad: bool,
}

impl<S: System> Clone for SrState<S> {
    fn clone(&self) -> Self {
        SrState {
            st: self.st.clone(),
            key: self.key.clone(),
            bad: self.bad,
        }
    }
}
impl<S: System> Hash for SrState<S> {
    fn hash<H: Hasher>(&self, h: &mut H) {
        self.key.hash(h);
        self.bad.hash(h);
    }
}
impl<S: System> PartialEq for SrState<S> {
    fn eq(&self, o: &Self) -> bool {
        self.key == o.key && self.bad == o.bad
    }
}
impl<S: System> std::fmt::Debug for SrState<S> {
    fn fmt(&self, f: &mut std::fmt::Formatter<'_>) -> std::fmt::Result {
        write!(f, "SrState(bad={})", self.bad)
    }
}

impl<S: System + 'static> Model for SrModel<S>
where
    S::State: 'static,
    S::Key: 'static,
    S::Action: 'static,
{
    type State = SrState<S>;
    type Action = S::Action;

    fn init_states(&self) -> Vec<Self::State> {
        let st = self.0.init();
        let key = self.0.key(&st);
        vec![SrState { st, key, bad: false }]
    }
    fn actions(&self, state: &Self::State, actions: &mut Vec<Self::Action>) {
        if !state.bad {
            self.0.actions(&state.st, actions);
        }
    }
    fn next_state(&self, last: &Self::State, action: Self::Action) -> Option<Self::State> {
        let r = self.0.step(&last.st, &action);
        if !r.violations.is_empty() {
            return Some(SrState {
                st: last.st.clone(),
                key: last.key.clone(),
                bad: true,
            });
        }
        let st = r.next?;
        let key = self.0.key(&st);
        Some(SrState { st, key, bad: false })
    }
    fn properties(&self) -> Vec<Property<Self>> {
        vec![Property::always("oracle", |_, s: &SrState<S>| !s.bad)]
    }
}

pub struct SrResult {
    pub unique_states: usize,
    pub generated: usize,
    pub max_depth: usize,
    pub violation: bool,
}

/// Run stateright's parallel BFS to completion.
pub fn run<S: System + 'static>(sys: Arc<S>, threads: usize) -> SrResult
where
    S: Send + Sync,
    S::State: 'static,
    S::Key: 'static,
    S::Action: 'static,
{
    let checker = SrModel(sys).checker().threads(threads).spawn_bfs().join();
    SrResult {
        unique_states: checker.unique_state_count(),
        generated: checker.state_count(),
        max_depth: checker.max_depth(),
        violation: !checker.discoveries().is_empty(),
    }
}
