//! Violations, evidence files, known findings and replay artefacts.
use serde_json::{json, Map, Value};
use std::collections::BTreeMap;
use std::path::PathBuf;
use std::sync::atomic::{AtomicU64, Ordering};
use std::sync::Mutex;
use std::time::Instant;

#[derive(Clone, Copy, PartialEq, Eq, Debug)]
pub enum Tier {
    Quick,
    Thorough,
}

impl Tier {
    pub fn name(&self) -> &'static str {
        match self {
            Tier::Quick => "quick",
            Tier::Thorough => "thorough",
        }
    }
    pub fn parse(s: &str) -> Option<Tier> {
        match s {
            "quick" => Some(Tier::Quick),
            "thorough" => Some(Tier::Thorough),
            _ => None,
        }
    }
    pub fn thorough(&self) -> bool {
        *self == Tier::Thorough
    }
}

/// One property violation. `signature` is the stable class key (no spaces) used to group
/// reports and to match KNOWN_FINDINGS.txt; `case` is the machine-readable replay payload.
#[derive(Clone, Debug)]
pub struct Violation {
    pub rule: String,
    pub signature: String,
    pub detail: String,
    pub case: String,
    pub rust_test: String,
}

impl Violation {
    pub fn new(rule: &str, signature: impl Into<String>, detail: impl Into<String>) -> Violation {
        let signature: String = signature.into();
        Violation {
            rule: rule.to_string(),
            signature: signature.replace(' ', "_"),
            detail: detail.into(),
            case: String::new(),
            rust_test: String::new(),
        }
    }
    pub fn with_case(mut self, case: impl Into<String>) -> Violation {
        self.case = case.into();
        self
    }
    pub fn with_test(mut self, t: impl Into<String>) -> Violation {
        self.rust_test = t.into();
        self
    }
}

/// Process-wide occurrence counter per violation signature. Systems ask it before building an
/// expensive detail message: after 64 occurrences of a signature the detail is skipped (the
/// engine keeps the first occurrence of every signature and only counts the rest).
thread_local! {
    static ALWAYS_DETAIL: std::cell::Cell<bool> = const { std::cell::Cell::new(false) };
}

/// Runs `f` with the flood guard switched off on this thread: every violation built inside gets
/// its detail text. For composite actions (pumped cycles) that re-label inner violations under a
/// signature of their own, whose first occurrence must not come out blank.
pub fn with_details<R>(f: impl FnOnce() -> R) -> R {
    let old = ALWAYS_DETAIL.with(|c| c.replace(true));
    let r = f();
    ALWAYS_DETAIL.with(|c| c.set(old));
    r
}

pub fn flood_guard(signature: &str) -> bool {
    use std::collections::HashMap;
    if ALWAYS_DETAIL.with(|c| c.get()) {
        return false;
    }
    use std::sync::{OnceLock, RwLock};
    static SEEN: OnceLock<RwLock<HashMap<String, AtomicU64>>> = OnceLock::new();
    let m = SEEN.get_or_init(|| RwLock::new(HashMap::new()));
    {
        let r = m.read().unwrap();
        if let Some(c) = r.get(signature) {
            return c.fetch_add(1, Ordering::Relaxed) >= 64;
        }
    }
    let mut w = m.write().unwrap();
    w.entry(signature.to_string()).or_insert_with(|| AtomicU64::new(0)).fetch_add(1, Ordering::Relaxed);
    false
}

impl Violation {
    /// Like `new`, but `detail` is only evaluated while the signature is not flooding.
    pub fn lazy(rule: &str, signature: String, detail: impl FnOnce() -> String) -> Violation {
        let signature = signature.replace(' ', "_");
        let d = if flood_guard(&signature) { String::new() } else { detail() };
        Violation { rule: rule.to_string(), signature, detail: d, case: String::new(), rust_test: String::new() }
    }
}

pub fn verif_root() -> PathBuf {
    PathBuf::from(std::env::var("VERIF_ROOT").unwrap_or_else(|_| "/verif".to_string()))
}

/// Collector for one check run in one configuration (a "part"). Thread-safe.
pub struct Check {
    pub id: String,
    pub part: String,
    pub tier: Tier,
    pub seed: u64,
    pub level: String,
    start: Instant,
    evaluations: AtomicU64,
    nontrivial: AtomicU64,
    states: AtomicU64,
    transitions: AtomicU64,
    traces: AtomicU64,
    violations: Mutex<BTreeMap<String, (Violation, u64)>>,
    /// occurrence counters per signature; lets floods of one class (millions of inputs hitting
    /// the same defect) bypass formatting-heavy bookkeeping after the first 64
    counts: std::sync::RwLock<std::collections::HashMap<String, AtomicU64>>,
    samples: Mutex<Vec<Value>>,
    extra: Mutex<Map<String, Value>>,
    assumptions: Mutex<Vec<String>>,
    rules: Mutex<Vec<String>>,
    exhaustive: Mutex<bool>,
    machinery_errors: Mutex<Vec<String>>,
}

impl Check {
    pub fn new(id: &str, part: &str, tier: Tier, level: &str) -> Check {
        let seed = std::env::var("VERIF_SEED")
            .ok()
            .and_then(|s| s.parse::<u64>().ok())
            .unwrap_or(0);
        Check {
            id: id.to_string(),
            part: part.to_string(),
            tier,
            seed,
            level: level.to_string(),
            start: Instant::now(),
            evaluations: AtomicU64::new(0),
            nontrivial: AtomicU64::new(0),
            states: AtomicU64::new(0),
            transitions: AtomicU64::new(0),
            traces: AtomicU64::new(0),
            violations: Mutex::new(BTreeMap::new()),
            counts: std::sync::RwLock::new(std::collections::HashMap::new()),
            samples: Mutex::new(Vec::new()),
            extra: Mutex::new(Map::new()),
            assumptions: Mutex::new(Vec::new()),
            rules: Mutex::new(Vec::new()),
            exhaustive: Mutex::new(true),
            machinery_errors: Mutex::new(Vec::new()),
        }
    }

    /// Cheap test for call sites that want to skip building a detailed message: true once a
    /// signature has been recorded 64 times (the occurrence is counted).
    pub fn flooded(&self, signature: &str) -> bool {
        let r = self.counts.read().unwrap();
        if let Some(c) = r.get(signature) {
            if c.load(Ordering::Relaxed) >= 64 {
                c.fetch_add(1, Ordering::Relaxed);
                return true;
            }
        }
        false
    }

    pub fn violate(&self, v: Violation) {
        // the verdict of this check is known from now on: later explorations run under tight caps
        crate::engine::VIOLATION_SEEN.store(true, Ordering::Relaxed);
        if self.flooded(&v.signature) {
            return;
        }
        {
            let r = self.counts.read().unwrap();
            match r.get(&v.signature) {
                Some(c) => {
                    c.fetch_add(1, Ordering::Relaxed);
                }
                None => {
                    drop(r);
                    let mut w = self.counts.write().unwrap();
                    w.entry(v.signature.clone()).or_insert_with(|| AtomicU64::new(0)).fetch_add(1, Ordering::Relaxed);
                }
            }
        }
        let mut m = self.violations.lock().unwrap();
        match m.get_mut(&v.signature) {
            Some(e) => {
                e.1 += 1;
                // keep the smallest case (shortest trace / simplest input) as representative
                if !v.case.is_empty() && !v.detail.starts_with("(detail elided") && (e.0.case.is_empty() || v.case.len() < e.0.case.len()) {
                    e.0 = v;
                }
            }
            None => {
                m.insert(v.signature.clone(), (v, 1));
            }
        }
    }
    pub fn violation_count(&self) -> usize {
        self.violations.lock().unwrap().len()
    }
    pub fn add_eval(&self, n: u64) {
        self.evaluations.fetch_add(n, Ordering::Relaxed);
    }
    pub fn add_nontrivial(&self, n: u64) {
        self.nontrivial.fetch_add(n, Ordering::Relaxed);
    }
    pub fn add_states(&self, n: u64) {
        self.states.fetch_add(n, Ordering::Relaxed);
    }
    pub fn add_transitions(&self, n: u64) {
        self.transitions.fetch_add(n, Ordering::Relaxed);
    }
    pub fn add_traces(&self, n: u64) {
        self.traces.fetch_add(n, Ordering::Relaxed);
    }
    pub fn sample(&self, v: Value) {
        let mut s = self.samples.lock().unwrap();
        if s.len() < 40 {
            s.push(v);
        }
    }
    pub fn rule(&self, r: &str) {
        let mut rules = self.rules.lock().unwrap();
        if !rules.iter().any(|x| x == r) {
            rules.push(r.to_string());
        }
    }
    pub fn assume(&self, a: &str) {
        let mut v = self.assumptions.lock().unwrap();
        if !v.iter().any(|x| x == a) {
            v.push(a.to_string());
        }
    }
    pub fn set(&self, k: &str, v: Value) {
        self.extra.lock().unwrap().insert(k.to_string(), v);
    }
    /// Append to a JSON array stored under `k` in coverage.
    pub fn push(&self, k: &str, v: Value) {
        let mut e = self.extra.lock().unwrap();
        let entry = e.entry(k.to_string()).or_insert_with(|| Value::Array(vec![]));
        if let Value::Array(a) = entry {
            a.push(v);
        }
    }
    pub fn not_exhaustive(&self, why: &str) {
        *self.exhaustive.lock().unwrap() = false;
        self.push("caps_hit", json!(why));
    }
    pub fn machinery_error(&self, e: impl Into<String>) {
        self.machinery_errors.lock().unwrap().push(e.into());
    }

    /// Write the part evidence, print KNOWN-FINDING / VIOLATION lines, return the exit code.
    pub fn finish(self) -> i32 {
        if let Ok(path) = std::env::var("XS_REPLAY") {
            // replay mode: no files are written; report whether the recorded signature recurs
            let want = std::fs::read_to_string(&path)
                .ok()
                .and_then(|s| serde_json::from_str::<Value>(&s).ok())
                .and_then(|d| d["signature"].as_str().map(|s| s.to_string()))
                .unwrap_or_default();
            let vio = self.violations.into_inner().unwrap();
            for (sig, (v, _)) in vio.iter() {
                println!("REPLAY-VIOLATION signature={} {}", sig, v.detail);
            }
            let merr = self.machinery_errors.into_inner().unwrap();
            for e in &merr {
                eprintln!("MACHINERY: {}", e);
            }
            if vio.contains_key(&want) {
                println!("REPRODUCED property={} signature={}", self.id, want);
                return 1;
            }
            println!("NOT-REPRODUCED property={} signature={}", self.id, want);
            return if merr.is_empty() { 0 } else { 2 };
        }
        let root = verif_root();
        let known = load_known(&root, &self.id);
        let wall = self.start.elapsed().as_secs_f64();
        let mut vio = self.violations.into_inner().unwrap();
        {
            let counts = self.counts.read().unwrap();
            for (sig, e) in vio.iter_mut() {
                if let Some(c) = counts.get(sig) {
                    e.1 = e.1.max(c.load(Ordering::Relaxed));
                }
            }
        }
        let mut unlisted = 0usize;
        let mut known_hit = 0usize;
        let mut vio_json = Vec::new();
        let replays = root.join("replays");
        let _ = std::fs::create_dir_all(&replays);
        let mut n = 0;
        for (sig, (v, count)) in vio.iter() {
            if let Some(desc) = known.get(sig) {
                known_hit += 1;
                println!(
                    "KNOWN-FINDING: property={} {} ({}; {} occurrence(s) in this run, e.g. {})",
                    self.id, sig, desc, count, v.detail
                );
                vio_json.push(json!({"signature": sig, "known": true, "occurrences": count, "example": v.detail}));
            } else {
                unlisted += 1;
                n += 1;
                let path = replays.join(format!("{}-{}-{}.json", self.id, self.part, n));
                let doc = json!({
                    "property": self.id,
                    "part": self.part,
                    "tier": self.tier.name(),
                    "seed": self.seed,
                    "rule": v.rule,
                    "signature": sig,
                    "occurrences": count,
                    "detail": v.detail,
                    "case": v.case,
                    "rust_test": v.rust_test,
                });
                let _ = std::fs::write(&path, serde_json::to_string_pretty(&doc).unwrap());
                println!("VIOLATION property={} replay={}", self.id, path.display());
                println!("  rule={} signature={} occurrences={}", v.rule, sig, count);
                println!("  {}", v.detail);
                vio_json.push(json!({"signature": sig, "known": false, "occurrences": count, "example": v.detail, "replay": path.display().to_string()}));
            }
        }
        let merr = self.machinery_errors.into_inner().unwrap();
        let mut cov = self.extra.into_inner().unwrap();
        let ev = self.evaluations.load(Ordering::Relaxed);
        let nt = self.nontrivial.load(Ordering::Relaxed);
        let st = self.states.load(Ordering::Relaxed);
        let tr = self.transitions.load(Ordering::Relaxed);
        cov.insert("evaluations".into(), json!(ev));
        cov.insert("distinct_nontrivial".into(), json!(nt));
        if st > 0 {
            cov.insert("states".into(), json!(st));
            cov.insert("transitions".into(), json!(tr));
            cov.insert(
                "traces_validated_against_impl".into(),
                json!(self.traces.load(Ordering::Relaxed)),
            );
        }
        cov.insert(
            "rule".into(),
            json!(self.rules.into_inner().unwrap().join(" || ")),
        );
        cov.insert("samples".into(), Value::Array(self.samples.into_inner().unwrap()));
        cov.insert("exhaustive".into(), json!(*self.exhaustive.lock().unwrap()));
        cov.insert("known_findings_hit".into(), json!(known_hit));
        if !vio_json.is_empty() {
            cov.insert("violation_classes".into(), Value::Array(vio_json));
        }
        if !merr.is_empty() {
            cov.insert("machinery_errors".into(), json!(merr));
        }
        let doc = json!({
            "property_id": self.id,
            "part": self.part,
            "tier": self.tier.name(),
            "seed": self.seed,
            "level": self.level,
            "coverage": Value::Object(cov),
            "assumptions": self.assumptions.into_inner().unwrap(),
            "wall_s": wall,
            "violations": unlisted,
        });
        let parts = root.join("evidence").join("parts");
        let _ = std::fs::create_dir_all(&parts);
        let p = parts.join(format!("{}.{}.json", self.id, self.part));
        if let Err(e) = std::fs::write(&p, serde_json::to_string_pretty(&doc).unwrap()) {
            eprintln!("MACHINERY: cannot write {}: {}", p.display(), e);
            return 2;
        }
        println!(
            "[{} {} {}] evaluations={} nontrivial={} states={} transitions={} violations(unlisted)={} known={} wall={:.1}s",
            self.id, self.part, self.tier.name(), ev, nt, st, tr, unlisted, known_hit, wall
        );
        if !merr.is_empty() {
            for e in &merr {
                eprintln!("MACHINERY: {}", e);
            }
            // A violation demonstrated against the real code (with its replay artefact) stands on its
            // own; engine cross-checks that fail next to it (state counts of two engines on a tree
            // whose state space has exploded, a changed violation set under another age cap) are
            // consequences, not reasons to withhold the verdict.
            if unlisted == 0 {
                return 2;
            }
        }
        if unlisted > 0 {
            1
        } else {
            0
        }
    }
}

/// KNOWN_FINDINGS.txt: lines `known: property=<id> signature=<sig> <what fails>`; `fixed:` lines
/// and comments are ignored here (a fixed entry suppresses nothing). Read-only at run time.
pub fn load_known(root: &std::path::Path, id: &str) -> BTreeMap<String, String> {
    let mut m = BTreeMap::new();
    let txt = std::fs::read_to_string(root.join("KNOWN_FINDINGS.txt")).unwrap_or_default();
    for line in txt.lines() {
        let line = line.trim();
        if let Some(rest) = line.strip_prefix("known:") {
            let mut prop = None;
            let mut sig = None;
            let mut desc = Vec::new();
            for tok in rest.split_whitespace() {
                if let Some(p) = tok.strip_prefix("property=") {
                    prop = Some(p.to_string());
                } else if let Some(s) = tok.strip_prefix("signature=") {
                    sig = Some(s.to_string());
                } else {
                    desc.push(tok);
                }
            }
            if let (Some(p), Some(s)) = (prop, sig) {
                if p == id {
                    m.insert(s, desc.join(" "));
                }
            }
        }
    }
    m
}
