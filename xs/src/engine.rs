//! Level-synchronous, parallel, explicit-state breadth-first search over a [`System`] whose
//! `step` calls the real code under test. Deterministic: the result does not depend on thread
//! scheduling (candidates are merged in frontier order).
use crate::report::Violation;
use rayon::prelude::*;
use std::collections::{BTreeMap, HashMap, HashSet};
use std::fmt::Debug;
use std::hash::Hash;
use std::time::{Duration, Instant};

pub struct Step<S> {
    /// Successor state; `None` for probe actions that are judged but not expanded.
    pub next: Option<S>,
    /// Identify the successor STRICTLY: an existing state only counts as the same if the fine
    /// fingerprint agrees as well (not only key + `same`). Systems set this for reset-like actions:
    /// a hand-written lossy `PartialEq` (e.g. one that ignores a reset generation counter) would
    /// otherwise merge the state after 256 resets with the initial one and hide what follows.
    pub strict: bool,
    /// Fingerprint of what the real code returned (0 = returned nothing).
    pub obs: u64,
    pub violations: Vec<Violation>,
}

pub trait System: Sync {
    type State: Clone + Send + Sync;
    type Action: Clone + Send + Sync + PartialEq + Debug;
    type Key: Hash + Eq + Clone + Send + Sync;

    fn name(&self) -> String;
    /// id of the property this run reports under (prefix of engine-made violation signatures)
    fn pid(&self) -> String {
        "C00".to_string()
    }
    fn init(&self) -> Self::State;
    fn actions(&self, s: &Self::State, out: &mut Vec<Self::Action>);
    /// Actions enabled in a state found at BFS depth `depth`. Systems override this to offer
    /// expensive actions (e.g. storms of 65536 resets) only near the initial state; the default
    /// ignores the depth.
    fn actions_at(&self, s: &Self::State, _depth: u32, out: &mut Vec<Self::Action>) {
        self.actions(s, out)
    }
    /// Must be a pure function of (s, a): restores any ambient state (mock clock) from `s`,
    /// copies the real object, calls the real method, lets the oracle judge.
    fn step(&self, s: &Self::State, a: &Self::Action) -> Step<Self::State>;
    /// Canonical identity used for hashing.
    fn key(&self, s: &Self::State) -> Self::Key;
    /// Refinement inside one hash bucket (e.g. `==` on the real object). Default: key decides.
    fn same(&self, _a: &Self::State, _b: &Self::State) -> bool {
        true
    }
    /// Optional finer (more expensive) fingerprint, used only to index key buckets that have
    /// grown long: when the oracle's model state stops tracking the real object (a broken
    /// implementation), thousands of distinct real states can share one key.
    fn fine_key(&self, _s: &Self::State) -> Option<u128> {
        None
    }
    fn n_classes(&self) -> usize {
        1
    }
    fn class_name(&self, _i: usize) -> String {
        "action".to_string()
    }
    fn class_of(&self, _a: &Self::Action) -> usize {
        0
    }
    /// Text form of an action, parseable by the harness's replay command.
    fn render(&self, a: &Self::Action) -> String {
        format!("{:?}", a)
    }
    /// One line of plain Rust replaying the action through the public API (for the artefact).
    fn rust_line(&self, a: &Self::Action) -> String {
        format!("// {:?}", a)
    }
    /// Lines that create the object(s) the replayed actions operate on.
    fn rust_preamble(&self) -> String {
        String::new()
    }
}

#[derive(Clone, Debug)]
pub struct Limits {
    pub max_states: usize,
    pub max_wall: Duration,
    pub restoration_check: bool,
    pub obs_cap: usize,
    /// once a violation has been found, stop as soon as this many states exist - or twice the
    /// number that existed when the first violation was found, whichever is larger (a broken
    /// implementation can have a vastly larger - even unbounded - state space than the correct
    /// one; the verdict is already known and the shallowest traces have been seen)
    pub states_after_violation: usize,
}

impl Default for Limits {
    fn default() -> Self {
        Limits {
            max_states: std::env::var("XS_MAX_STATES").ok().and_then(|s| s.parse().ok()).unwrap_or(20_000_000),
            max_wall: Duration::from_secs(std::env::var("XS_MAX_WALL_S").ok().and_then(|s| s.parse().ok()).unwrap_or(1500)),
            restoration_check: true,
            obs_cap: 2_000_000,
            states_after_violation: 20_000,
        }
    }
}

pub struct Node<S: System> {
    pub state: S::State,
    pub parent: u32,
    pub action: Option<S::Action>,
    pub obs: u64,
    pub depth: u32,
    chain: u32,
}

pub struct Found<S: System> {
    pub violation: Violation,
    pub trace: Vec<S::Action>,
    pub count: u64,
}

pub struct Outcome<S: System> {
    pub nodes: Vec<Node<S>>,
    pub transitions: u64,
    pub probes: u64,
    pub depth: usize,
    pub class_counts: Vec<u64>,
    pub distinct_obs: usize,
    pub obs_capped: bool,
    pub found: Vec<Found<S>>,
    pub exhaustive: bool,
    pub cap: Option<String>,
    pub max_bucket: usize,
    pub restoration_checked: u64,
    pub restoration_failures: Vec<String>,
    pub wall_s: f64,
}

impl<S: System> Outcome<S> {
    pub fn path_to(&self, mut id: u32) -> Vec<S::Action> {
        let mut v = Vec::new();
        while id != u32::MAX {
            let n = &self.nodes[id as usize];
            if let Some(a) = &n.action {
                v.push(a.clone());
            }
            id = n.parent;
        }
        v.reverse();
        v
    }
}

struct Cand<S: System> {
    strict: bool,
    parent: u32,
    action: S::Action,
    state: S::State,
    key: S::Key,
    obs: u64,
}

struct Local<S: System> {
    cands: Vec<Cand<S>>,
    transitions: u64,
    probes: u64,
    class_counts: Vec<u64>,
    obs: HashSet<u64>,
    found: Vec<(u32, S::Action, Violation)>,
}

type Big<S> = HashMap<<S as System>::Key, HashMap<u128, Vec<u32>>>;
const BIG_BUCKET: usize = 16;

fn lookup<S: System>(
    sys: &S,
    map: &HashMap<S::Key, u32>,
    big: &Big<S>,
    nodes: &[Node<S>],
    key: &S::Key,
    st: &S::State,
    strict: bool,
) -> bool {
    if let Some(sub) = big.get(key) {
        if let Some(f) = sys.fine_key(st) {
            return sub.get(&f).map_or(false, |ids| ids.iter().any(|&id| sys.same(&nodes[id as usize].state, st)));
        }
    }
    let fine = if strict { sys.fine_key(st) } else { None };
    if let Some(&first) = map.get(key) {
        let mut id = first;
        while id != u32::MAX {
            let n = &nodes[id as usize];
            if sys.same(&n.state, st) && (fine.is_none() || sys.fine_key(&n.state) == fine) {
                return true;
            }
            id = n.chain;
        }
    }
    false
}

/// Replay mode (env XS_REPLAY=<artefact json>): no search. The system named in the artefact walks
/// the recorded action list from its initial state through the real code; every other system is
/// skipped.
fn replay_mode<S: System>(sys: &S) -> Option<Outcome<S>> {
    let path = std::env::var("XS_REPLAY").ok()?;
    let doc: serde_json::Value = serde_json::from_str(&std::fs::read_to_string(&path).ok()?).ok()?;
    let case = doc["case"].as_str().unwrap_or("");
    let (name, actions) = case.rsplit_once('|').unwrap_or(("", ""));
    let mut out = Outcome {
        nodes: vec![Node { state: sys.init(), parent: u32::MAX, action: None, obs: 0, depth: 0, chain: u32::MAX }],
        transitions: 0,
        probes: 0,
        depth: 0,
        class_counts: vec![0; sys.n_classes()],
        distinct_obs: 0,
        obs_capped: false,
        found: Vec::new(),
        exhaustive: true,
        cap: None,
        max_bucket: 1,
        restoration_checked: 0,
        restoration_failures: Vec::new(),
        wall_s: 0.0,
    };
    if name != sys.name() {
        return Some(out);
    }
    let mut cur = sys.init();
    let mut trace: Vec<S::Action> = Vec::new();
    let mut acts = Vec::new();
    for (step_no, want) in actions.split(';').filter(|a| !a.is_empty()).enumerate() {
        acts.clear();
        sys.actions_at(&cur, step_no as u32, &mut acts);
        let a = match acts.iter().find(|a| sys.render(a) == want) {
            Some(a) => a.clone(),
            None => {
                println!("REPLAY: action {:?} is not enabled in the reached state of {}", want, name);
                return Some(out);
            }
        };
        trace.push(a.clone());
        let r = match crate::catch(|| sys.step(&cur, &a)) {
            Ok(r) => r,
            Err(msg) => Step { strict: false,
                next: None,
                obs: 0,
                violations: vec![Violation::new("panics-on-valid-input", format!("{}/panics-on-valid-input/{}", sys.pid(), sys.class_name(sys.class_of(&a))), format!("the real code panicked during {:?}: {}", a, msg))],
            },
        };
        out.transitions += 1;
        println!("REPLAY: {} -> observation {:016x}, {} violation(s)", want, r.obs, r.violations.len());
        for v in r.violations {
            out.found.push(Found { violation: v, trace: trace.clone(), count: 1 });
        }
        match r.next {
            Some(n) => cur = n,
            None => break,
        }
    }
    Some(out)
}

/// Set once any exploration of this process has found a violation: the verdict of the check is
/// known, so later explorations run under tight caps (a broken implementation can make every one
/// of dozens of explorations blow up).
pub static VIOLATION_SEEN: std::sync::atomic::AtomicBool = std::sync::atomic::AtomicBool::new(false);

pub fn explore<S: System>(sys: &S, limits: &Limits) -> Outcome<S> {
    if let Some(o) = replay_mode(sys) {
        return o;
    }
    let mut limits = limits.clone();
    if VIOLATION_SEEN.load(std::sync::atomic::Ordering::Relaxed) {
        limits.max_wall = limits.max_wall.min(Duration::from_secs(20));
        limits.max_states = limits.max_states.min(300_000);
    }
    let limits = &limits;
    let t0 = Instant::now();
    let mut nodes: Vec<Node<S>> = Vec::new();
    let mut map: HashMap<S::Key, u32> = HashMap::new();
    let mut big: Big<S> = HashMap::new();
    let init = sys.init();
    map.insert(sys.key(&init), 0);
    nodes.push(Node {
        state: init,
        parent: u32::MAX,
        action: None,
        obs: 0,
        depth: 0,
        chain: u32::MAX,
    });
    let ncls = sys.n_classes();
    let mut class_counts = vec![0u64; ncls];
    let mut transitions = 0u64;
    let mut probes = 0u64;
    let mut obs_set: HashSet<u64> = HashSet::new();
    let mut obs_capped = false;
    // signature -> (violation, parent, action, count)
    let mut found: BTreeMap<String, (Violation, u32, S::Action, u64)> = BTreeMap::new();
    let mut cap: Option<String> = None;
    let mut first_violation_at: Option<usize> = None;
    let mut max_bucket = 1usize;
    let mut depth = 0usize;

    let threads = crate::n_threads();
    let mut lo = 0usize;
    'levels: loop {
        let hi = nodes.len();
        if lo == hi {
            break;
        }
        // estimate the action fan-out to size batches at about 8M transitions
        let mut tmp = Vec::new();
        sys.actions_at(&nodes[lo].state, nodes[lo].depth, &mut tmp);
        let fan = tmp.len().max(1);
        let batch = (8_000_000 / fan).clamp(256, 1 << 20);
        let mut b_lo = lo;
        while b_lo < hi {
            let b_hi = (b_lo + batch).min(hi);
            let n = b_hi - b_lo;
            let chunk = ((n + threads * 8 - 1) / (threads * 8)).max(1);
            let ranges: Vec<(usize, usize)> = (0..n)
                .step_by(chunk)
                .map(|s| (b_lo + s, (b_lo + s + chunk).min(b_hi)))
                .collect();
            let nodes_ref = &nodes;
            let map_ref = &map;
            let big_ref = &big;
            let obs_cap = limits.obs_cap;
            let locals: Vec<Local<S>> = ranges
                .par_iter()
                .map(|&(a, b)| {
                    let mut l = Local::<S> {
                        cands: Vec::new(),
                        transitions: 0,
                        probes: 0,
                        class_counts: vec![0; ncls],
                        obs: HashSet::new(),
                        found: Vec::new(),
                    };
                    let mut local_seen: HashMap<(S::Key, u128), Vec<usize>> = HashMap::new();
                    let mut acts = Vec::new();
                    for id in a..b {
                        let st = &nodes_ref[id].state;
                        acts.clear();
                        sys.actions_at(st, nodes_ref[id].depth, &mut acts);
                        for act in acts.iter() {
                            let r = match crate::catch(|| sys.step(st, act)) {
                                Ok(r) => r,
                                Err(msg) => {
                                    let rule = if msg.starts_with("harness") { "harness-panic" } else { "panics-on-valid-input" };
                                    Step { strict: false,
                                        next: None,
                                        obs: 0,
                                        violations: vec![Violation::new(
                                            rule,
                                            format!("{}/{}/{}", sys.pid(), rule, sys.class_name(sys.class_of(act))),
                                            format!("the real code panicked during {:?}: {}", act, msg),
                                        )],
                                    }
                                }
                            };
                            l.class_counts[sys.class_of(act)] += 1;
                            if r.obs != 0 && l.obs.len() < obs_cap {
                                l.obs.insert(r.obs);
                            }
                            if !r.violations.is_empty() {
                                l.transitions += 1;
                                for v in r.violations {
                                    l.found.push((id as u32, act.clone(), v));
                                }
                                continue;
                            }
                            let next = match r.next {
                                Some(n) => {
                                    l.transitions += 1;
                                    n
                                }
                                None => {
                                    l.probes += 1;
                                    continue;
                                }
                            };
                            let key = sys.key(&next);
                            if lookup(sys, map_ref, big_ref, nodes_ref, &key, &next, r.strict) {
                                continue;
                            }
                            let fine = if big_ref.contains_key(&key) || r.strict { sys.fine_key(&next).unwrap_or(0) } else { 0 };
                            let e = local_seen.entry((key.clone(), fine)).or_default();
                            if e.iter().any(|&i| sys.same(&l.cands[i].state, &next)) {
                                continue;
                            }
                            e.push(l.cands.len());
                            l.cands.push(Cand {
                                strict: r.strict,
                                parent: id as u32,
                                action: act.clone(),
                                state: next,
                                key,
                                obs: r.obs,
                            });
                        }
                    }
                    l
                })
                .collect();
            // deterministic sequential merge
            for l in locals {
                transitions += l.transitions;
                probes += l.probes;
                for (i, c) in l.class_counts.iter().enumerate() {
                    class_counts[i] += c;
                }
                for o in l.obs {
                    if obs_set.len() < limits.obs_cap {
                        obs_set.insert(o);
                    } else {
                        obs_capped = true;
                    }
                }
                for (parent, act, v) in l.found {
                    match found.get_mut(&v.signature) {
                        Some(e) => {
                            e.3 += 1;
                            // prefer a representative that still carries its detail message and,
                            // among those, the shallowest one
                            if e.0.detail.is_empty() && !v.detail.is_empty() {
                                e.0 = v;
                                e.1 = parent;
                                e.2 = act;
                            }
                        }
                        None => {
                            found.insert(v.signature.clone(), (v, parent, act, 1));
                        }
                    }
                }
                for c in l.cands {
                    let d = nodes[c.parent as usize].depth + 1;
                    match map.get(&c.key).copied() {
                        None => {
                            let id = nodes.len() as u32;
                            map.insert(c.key, id);
                            nodes.push(Node {
                                state: c.state,
                                parent: c.parent,
                                action: Some(c.action),
                                obs: c.obs,
                                depth: d,
                                chain: u32::MAX,
                            });
                        }
                        Some(_) if big.contains_key(&c.key) && sys.fine_key(&c.state).is_some() => {
                            let f = sys.fine_key(&c.state).unwrap();
                            let sub = big.get_mut(&c.key).unwrap();
                            let ids = sub.entry(f).or_default();
                            if !ids.iter().any(|&id| sys.same(&nodes[id as usize].state, &c.state)) {
                                let nid = nodes.len() as u32;
                                ids.push(nid);
                                // keep the chain intact as well (prepend after the head)
                                let head = map[&c.key];
                                let next = nodes[head as usize].chain;
                                nodes[head as usize].chain = nid;
                                nodes.push(Node {
                                    state: c.state,
                                    parent: c.parent,
                                    action: Some(c.action),
                                    obs: c.obs,
                                    depth: d,
                                    chain: next,
                                });
                                let total: usize = sub.values().map(|v| v.len()).sum();
                                max_bucket = max_bucket.max(total);
                            }
                        }
                        Some(first) => {
                            let mut id = first;
                            let mut last = first;
                            let mut len = 0usize;
                            let mut dup = false;
                            let cfine = if c.strict { sys.fine_key(&c.state) } else { None };
                            while id != u32::MAX {
                                len += 1;
                                if sys.same(&nodes[id as usize].state, &c.state) && (cfine.is_none() || sys.fine_key(&nodes[id as usize].state) == cfine) {
                                    dup = true;
                                    break;
                                }
                                last = id;
                                id = nodes[id as usize].chain;
                            }
                            if !dup {
                                let nid = nodes.len() as u32;
                                nodes[last as usize].chain = nid;
                                max_bucket = max_bucket.max(len + 1);
                                let key_for_big = c.key.clone();
                                nodes.push(Node {
                                    state: c.state,
                                    parent: c.parent,
                                    action: Some(c.action),
                                    obs: c.obs,
                                    depth: d,
                                    chain: u32::MAX,
                                });
                                if len + 1 > BIG_BUCKET && sys.fine_key(&nodes[nid as usize].state).is_some() {
                                    // index this long bucket by the fine fingerprint
                                    let mut sub: HashMap<u128, Vec<u32>> = HashMap::new();
                                    let mut id = first;
                                    while id != u32::MAX {
                                        let f = sys.fine_key(&nodes[id as usize].state).unwrap();
                                        sub.entry(f).or_default().push(id);
                                        id = nodes[id as usize].chain;
                                    }
                                    big.insert(key_for_big, sub);
                                }
                            }
                        }
                    }
                }
            }
            b_lo = b_hi;
            if nodes.len() > limits.max_states {
                cap = Some(format!(
                    "state cap {} hit at BFS depth {} (levels below {} fully expanded)",
                    limits.max_states, depth, depth
                ));
                break 'levels;
            }
            if !found.is_empty() && first_violation_at.is_none() {
                first_violation_at = Some(nodes.len());
            }
            if first_violation_at.map_or(false, |n0| nodes.len() > limits.states_after_violation.max(2 * n0)) {
                cap = Some(format!(
                    "stopped at {} states after a violation had been found (BFS depth {}; levels below {} fully expanded)",
                    nodes.len(), depth, depth
                ));
                break 'levels;
            }
            if t0.elapsed() > limits.max_wall {
                cap = Some(format!(
                    "wall cap {:?} hit at BFS depth {} (levels below {} fully expanded)",
                    limits.max_wall, depth, depth
                ));
                break 'levels;
            }
        }
        lo = hi;
        if nodes.len() > hi {
            depth += 1;
        }
    }

    let mut out = Outcome {
        nodes,
        transitions,
        probes,
        depth,
        class_counts,
        distinct_obs: obs_set.len(),
        obs_capped,
        found: Vec::new(),
        exhaustive: cap.is_none(),
        cap,
        max_bucket,
        restoration_checked: 0,
        restoration_failures: Vec::new(),
        wall_s: 0.0,
    };
    if !found.is_empty() {
        VIOLATION_SEEN.store(true, std::sync::atomic::Ordering::Relaxed);
    }
    for (_sig, (v, parent, act, count)) in found {
        let mut trace = out.path_to(parent);
        trace.push(act);
        out.found.push(Found {
            violation: v,
            trace,
            count,
        });
    }

    if limits.restoration_check {
        // Re-derive every state by replaying its BFS-tree path on a fresh object: outputs along
        // the path and the final identity must agree with what the search stored.
        let nodes = &out.nodes;
        let failures: Vec<String> = (0..nodes.len())
            .into_par_iter()
            .filter_map(|i| {
                let mut ids = Vec::new();
                let mut id = i as u32;
                while id != u32::MAX {
                    ids.push(id);
                    id = nodes[id as usize].parent;
                }
                ids.reverse();
                let mut cur = sys.init();
                for &nid in ids.iter().skip(1) {
                    let n = &nodes[nid as usize];
                    let a = n.action.as_ref().unwrap();
                    let r = sys.step(&cur, a);
                    if r.obs != n.obs {
                        return Some(format!(
                            "state #{}: replaying its path on a fresh object, action {:?} returned a different result than during the search",
                            i, a
                        ));
                    }
                    match r.next {
                        Some(nx) => cur = nx,
                        None => return Some(format!("state #{}: path contains a probe action", i)),
                    }
                }
                let n = &nodes[i];
                if sys.key(&cur) != sys.key(&n.state) || !sys.same(&cur, &n.state) {
                    return Some(format!(
                        "state #{}: replaying its path on a fresh object ends in a different state",
                        i
                    ));
                }
                None
            })
            .collect();
        out.restoration_checked = nodes.len() as u64;
        out.restoration_failures = failures;
    }
    out.wall_s = t0.elapsed().as_secs_f64();
    out
}

/// Fold an [`Outcome`] into a [`crate::Check`]: counters, samples, violations with replay
/// payloads. `restoration_is_violation`: `Some(rule)` makes a restoration divergence a property
/// violation (C17); `None` makes it a machinery error.
pub fn record<S: System>(
    chk: &crate::Check,
    sys: &S,
    out: &Outcome<S>,
    restoration_is_violation: Option<&str>,
) {
    chk.add_states(out.nodes.len() as u64);
    chk.add_transitions(out.transitions);
    chk.add_eval(out.transitions + out.probes);
    chk.add_nontrivial(out.distinct_obs as u64);
    chk.add_traces(out.restoration_checked);
    let classes: serde_json::Map<String, serde_json::Value> = (0..sys.n_classes())
        .map(|i| (sys.class_name(i), serde_json::json!(out.class_counts[i])))
        .collect();
    chk.push(
        "explorations",
        serde_json::json!({
            "system": sys.name(),
            "states": out.nodes.len(),
            "transitions": out.transitions,
            "probe_evaluations": out.probes,
            "bfs_depth": out.depth,
            "distinct_observations": out.distinct_obs,
            "distinct_observations_capped": out.obs_capped,
            "per_action_class": classes,
            "max_states_per_key_bucket": out.max_bucket,
            "fixpoint_reached": out.exhaustive,
            "paths_replayed_on_fresh_object": out.restoration_checked,
            "wall_s": out.wall_s,
        }),
    );
    chk.set(
        "trace_validation",
        serde_json::json!("there is no separate model to conform: every transition of the search copies the REAL object and calls the REAL method (feed / poll / reset); the oracle (reference model or history observer) runs beside it. traces_validated_against_impl counts BFS-tree paths that were additionally re-executed from scratch on a fresh real object (clock 0): the result of every step and the final identity must equal what the search stored"),
    );
    if let Some(c) = &out.cap {
        chk.not_exhaustive(&format!("{}: {}", sys.name(), c));
    }
    // a sample: the path to the deepest state with its observation fingerprint
    if let Some((i, n)) = out.nodes.iter().enumerate().max_by_key(|(_, n)| n.depth) {
        let p = out.path_to(i as u32);
        chk.sample(serde_json::json!({
            "system": sys.name(),
            "deepest_state_path": p.iter().map(|a| sys.render(a)).collect::<Vec<_>>(),
            "depth": n.depth,
        }));
    }
    for f in &out.found {
        if f.violation.rule == "harness-panic" {
            chk.machinery_error(format!("{}: {} [trace: {:?}]", sys.name(), f.violation.detail, f.trace));
            continue;
        }
        let mut v = f.violation.clone();
        let rendered: Vec<String> = f.trace.iter().map(|a| sys.render(a)).collect();
        v.case = format!("{}|{}", sys.name(), rendered.join(";"));
        let lines: Vec<String> = f.trace.iter().map(|a| format!("    {}", sys.rust_line(a))).collect();
        v.rust_test = format!(
            "// system: {}\n// {}\n#[test]\nfn replay() {{\n    {}\n{}\n}}\n",
            sys.name(),
            v.detail,
            sys.rust_preamble(),
            lines.join("\n")
        );
        if v.detail.is_empty() {
            v.detail = "(detail elided: this signature occurred more than 64 times in this process)".to_string();
        }
        v.detail = format!("{} [trace: {}]", v.detail, rendered.join(" ; "));
        for _ in 0..f.count.min(1) {
            chk.violate(v.clone());
        }
    }
    for (i, fail) in out.restoration_failures.iter().enumerate() {
        if i >= 3 {
            break;
        }
        match restoration_is_violation {
            Some(rule) => chk.violate(Violation::new(
                rule,
                format!("{}/restoration-divergence/{}", rule, sys.name()),
                fail.clone(),
            )),
            None => chk.machinery_error(format!("{}: {}", sys.name(), fail)),
        }
    }
}

#[cfg(test)]
mod tests {
    use super::*;

    /// Toy system: two counters modulo (m, n); action 0 bumps the first, action 1 the second,
    /// action 2 is a probe. A "violation" is planted at (vx, vy).
    struct Grid {
        m: u32,
        n: u32,
        bad: Option<(u32, u32)>,
    }
    impl System for Grid {
        type State = (u32, u32);
        type Action = u8;
        type Key = (u32, u32);
        fn name(&self) -> String {
            "grid".into()
        }
        fn init(&self) -> (u32, u32) {
            (0, 0)
        }
        fn actions(&self, _s: &(u32, u32), out: &mut Vec<u8>) {
            out.extend([0u8, 1, 2]);
        }
        fn step(&self, s: &(u32, u32), a: &u8) -> Step<(u32, u32)> {
            let next = match a {
                0 => Some(((s.0 + 1) % self.m, s.1)),
                1 => Some((s.0, (s.1 + 1) % self.n)),
                _ => None,
            };
            let mut v = Vec::new();
            if let Some(nx) = next {
                if Some(nx) == self.bad {
                    v.push(Violation::new("planted", "T/planted", "reached the planted state"));
                }
            }
            Step { strict: false, next, obs: next.map_or(0, |x| 1 + x.0 as u64 * 1000 + x.1 as u64), violations: v }
        }
        fn key(&self, s: &(u32, u32)) -> (u32, u32) {
            *s
        }
    }

    #[test]
    fn fixpoint_counts_are_exact() {
        let g = Grid { m: 37, n: 11, bad: None };
        let out = explore(&g, &Limits::default());
        assert_eq!(out.nodes.len(), 37 * 11);
        assert_eq!(out.transitions, 2 * 37 * 11);
        assert_eq!(out.probes, 37 * 11);
        assert!(out.exhaustive && out.found.is_empty());
        assert_eq!(out.restoration_checked, 37 * 11);
        assert!(out.restoration_failures.is_empty());
        // BFS depth = eccentricity of the torus walk with +1 moves only
        assert_eq!(out.depth, 36 + 10);
    }

    #[test]
    fn violation_trace_is_shortest_and_successor_not_expanded() {
        let g = Grid { m: 50, n: 50, bad: Some((3, 2)) };
        let out = explore(&g, &Limits::default());
        assert_eq!(out.found.len(), 1);
        assert_eq!(out.found[0].trace.len(), 5);
        // the planted state itself is never a node
        assert!(out.nodes.iter().all(|n| n.state != (3, 2)));
    }

    #[test]
    fn deterministic_across_runs() {
        let g = Grid { m: 64, n: 64, bad: None };
        let a = explore(&g, &Limits::default());
        let b = explore(&g, &Limits::default());
        let pa: Vec<_> = a.nodes.iter().map(|n| (n.state, n.parent)).collect();
        let pb: Vec<_> = b.nodes.iter().map(|n| (n.state, n.parent)).collect();
        assert_eq!(pa, pb);
    }

    /// Same key for many states: the `same` refinement and the fine-key index must keep them apart.
    struct Bucketed;
    impl System for Bucketed {
        type State = u32;
        type Action = u8;
        type Key = u8;
        fn name(&self) -> String {
            "bucketed".into()
        }
        fn init(&self) -> u32 {
            0
        }
        fn actions(&self, _s: &u32, out: &mut Vec<u8>) {
            out.extend([0u8, 1]);
        }
        fn step(&self, s: &u32, a: &u8) -> Step<u32> {
            let next = if *a == 0 { (s + 1) % 1000 } else { (s * 7 + 3) % 1000 };
            Step { strict: false, next: Some(next), obs: 0, violations: vec![] }
        }
        fn key(&self, _s: &u32) -> u8 {
            0
        }
        fn same(&self, a: &u32, b: &u32) -> bool {
            a == b
        }
        fn fine_key(&self, s: &u32) -> Option<u128> {
            Some(*s as u128)
        }
    }

    #[test]
    fn long_buckets_are_indexed_without_losing_states() {
        let out = explore(&Bucketed, &Limits::default());
        assert_eq!(out.nodes.len(), 1000);
        assert_eq!(out.max_bucket, 1000);
    }

    #[test]
    fn caps_are_reported_not_hidden() {
        let g = Grid { m: 1000, n: 1000, bad: None };
        let out = explore(&g, &Limits { max_states: 5000, ..Default::default() });
        assert!(!out.exhaustive);
        assert!(out.cap.is_some());
    }
}
