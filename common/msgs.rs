//! Complete sweeps over the short-message input space: C01 (byte round trips), C02 (table
//! classification), C03 (observational equivalence), C06 (factory constructors).
#![allow(dead_code)]
use crate::midi::*;
use core::convert::TryFrom;
use core::fmt::Debug;
use helgoboss_midi::*;
use rayon::prelude::*;
use serde_json::json;
use std::collections::HashSet;
use std::sync::atomic::{AtomicU64, Ordering};
use std::sync::Mutex;
use xs::{catch, Check, Violation};

pub trait Impl: ShortMessage + ShortMessageFactory + PartialEq + Debug + Copy + Send + Sync {
    const NAME: &'static str;
    const STRUCTURED: bool;
}
impl Impl for RawShortMessage {
    const NAME: &'static str = "Raw";
    const STRUCTURED: bool = false;
}
impl Impl for StructuredShortMessage {
    const NAME: &'static str = "Structured";
    const STRUCTURED: bool = true;
}
impl Impl for Foreign3 {
    const NAME: &'static str = "Foreign3";
    const STRUCTURED: bool = false;
}
impl Impl for ForeignBytes {
    const NAME: &'static str = "ForeignBytes";
    const STRUCTURED: bool = false;
}
impl Impl for ForeignStrict {
    const NAME: &'static str = "ForeignStrict";
    const STRUCTURED: bool = false;
}
impl Impl for ForeignRefusing {
    const NAME: &'static str = "ForeignRefusing";
    const STRUCTURED: bool = false;
}

fn bytes_u8<M: ShortMessage>(m: &M) -> (u8, u8, u8) {
    let b = m.to_bytes();
    (b.0, b.1.get(), b.2.get())
}

fn getters_u8<M: ShortMessage>(m: &M) -> (u8, u8, u8) {
    (m.status_byte(), m.data_byte_1().get(), m.data_byte_2().get())
}

fn type_class(s: u8) -> String {
    if s < 0x80 {
        "invalid".into()
    } else if s < 0xF0 {
        format!("{:X}n", s >> 4)
    } else {
        format!("{:02X}", s)
    }
}

macro_rules! __sig {
    ($chk:expr, $id:expr, $rule:expr, $cls:expr) => {
        format!("{}/{}/{}/{}", $id, $rule, $cls, $chk.part).replace(' ', "_")
    };
}
macro_rules! vio {
    ($chk:expr, $id:expr, $rule:expr, $cls:expr, $case:expr, $($fmt:tt)*) => {
        if !$chk.flooded(&__sig!($chk, $id, $rule, $cls)) {
        $chk.violate(
            Violation::new(<_ as AsRef<str>>::as_ref(&$rule), format!("{}/{}/{}/{}", $id, $rule, $cls, $chk.part), format!($($fmt)*))
                .with_case(($case).to_string()),
        )
        }
    };
}

// ---------------------------------------------------------------------------------------------
// C01
// ---------------------------------------------------------------------------------------------

fn c01_factory<F: Impl>(chk: &Check, s: u8, d1: u8, d2: u8) {
    let case = format!("triple|{}|{}|{}", s, d1, d2);
    let cls = format!("{}/{}", F::NAME, type_class(s));
    let r = catch(|| F::from_bytes((s, u7(d1), u7(d2))));
    let r = match r {
        Ok(r) => r,
        Err(p) => {
            vio!(chk, "C01", "from_bytes-panics", cls, &case, "{}::from_bytes(({},{},{})) panicked: {}", F::NAME, s, d1, d2, p);
            return;
        }
    };
    if r.is_ok() != (s >= 0x80) {
        vio!(chk, "C01", "from_bytes-accepts-iff-status>=0x80", cls, &case,
            "{}::from_bytes(({},{},{})) is_ok={} but status>=0x80 is {}", F::NAME, s, d1, d2, r.is_ok(), s >= 0x80);
        return;
    }
    let m = match r {
        Ok(m) => m,
        Err(_) => return,
    };
    let want = if F::STRUCTURED { canon(s, d1, d2) } else { (s, d1, d2) };
    let got = catch(|| (bytes_u8(&m), getters_u8(&m)));
    match got {
        Err(p) => vio!(chk, "C01", "to_bytes-panics", cls, &case, "{} from ({},{},{}): byte getters panicked: {}", F::NAME, s, d1, d2, p),
        Ok((tb, g)) => {
            if tb != want {
                vio!(chk, "C01", "bytes-preserved", cls, &case, "{} from ({},{},{}): to_bytes() = {:?}, expected {:?}", F::NAME, s, d1, d2, tb, want);
            }
            if g != want {
                vio!(chk, "C01", "getters-preserved", cls, &case, "{} from ({},{},{}): (status_byte,data_byte_1,data_byte_2) = {:?}, expected {:?}", F::NAME, s, d1, d2, g, want);
            }
        }
    }
}

pub fn c01_triple(chk: &Check, s: u8, d1: u8, d2: u8, images: Option<&Mutex<HashSet<StructuredShortMessage>>>) -> bool {
    c01_factory::<RawShortMessage>(chk, s, d1, d2);
    c01_factory::<StructuredShortMessage>(chk, s, d1, d2);
    c01_factory::<Foreign3>(chk, s, d1, d2);
    c01_factory::<ForeignBytes>(chk, s, d1, d2);
    if s < 0x80 {
        return false;
    }
    let case = format!("triple|{}|{}|{}", s, d1, d2);
    let cls = type_class(s);
    let r = catch(|| {
        let mut bad: Vec<(&'static str, String)> = Vec::new();
        // TryFrom<(u8,U7,U7)> and Into<(u8,U7,U7)> for RawShortMessage
        let rawm = RawShortMessage::try_from((s, u7(d1), u7(d2)));
        match rawm {
            Ok(rm) => {
                let t: (u8, U7, U7) = rm.into();
                if (t.0, t.1.get(), t.2.get()) != (s, d1, d2) {
                    bad.push(("raw-into-tuple", format!("Into<(u8,U7,U7)> gave {:?}", t)));
                }
            }
            Err(_) => bad.push(("raw-try_from-tuple", "TryFrom<(u8,U7,U7)> rejected a valid status".into())),
        }
        let v = StructuredShortMessage::from_bytes((s, u7(d1), u7(d2))).unwrap();
        if v != expected_structured(s, d1, d2) {
            bad.push(("structured-value", format!("structured value {:?}, table says {:?}", v, expected_structured(s, d1, d2))));
        }
        let vb = v.to_bytes();
        let back = StructuredShortMessage::from_bytes(vb);
        if back.as_ref().ok() != Some(&v) {
            bad.push(("structured-bytes-roundtrip", format!("from_bytes(v.to_bytes()) = {:?} != v = {:?}", back, v)));
        }
        let r2: RawShortMessage = v.to_other();
        if r2.to_structured() != v {
            bad.push(("structured-raw-structured", format!("v.to_other::<Raw>().to_structured() = {:?} != v = {:?}", r2.to_structured(), v)));
        }
        if StructuredShortMessage::from_other(&v) != v {
            bad.push(("structured-from_other", format!("Structured::from_other(&v) != v = {:?}", v)));
        }
        if v.to_structured() != v {
            bad.push(("structured-to_structured", format!("v.to_structured() != v = {:?}", v)));
        }
        // raw -> structured -> raw is idempotent
        let r1 = RawShortMessage::from_bytes((s, u7(d1), u7(d2))).unwrap();
        let r1s: RawShortMessage = r1.to_structured().to_other();
        let r1ss: RawShortMessage = r1s.to_structured().to_other();
        if r1s != r1ss {
            bad.push(("raw-structured-raw-idempotent", format!("{:?} -> {:?} -> {:?}", r1, r1s, r1ss)));
        }
        let c = canon(s, d1, d2);
        if bytes_u8(&r1s) != c {
            bad.push(("raw-structured-raw-canonical", format!("raw->structured->raw gives {:?}, canonical bytes are {:?}", bytes_u8(&r1s), c)));
        }
        if canon(c.0, c.1, c.2) != c {
            bad.push(("harness-canon-idempotent", "canon not idempotent (harness bug)".into()));
        }
        (bad, v)
    });
    match r {
        Err(p) => {
            vio!(chk, "C01", "roundtrip-panics", cls, &case, "round trips of ({},{},{}) panicked: {}", s, d1, d2, p);
        }
        Ok((bad, v)) => {
            for (rule, d) in bad {
                vio!(chk, "C01", rule, cls, &case, "triple ({},{},{}): {}", s, d1, d2, d);
            }
            if let Some(im) = images {
                im.lock().unwrap().insert(v);
            }
        }
    }
    canon(s, d1, d2) != (s, d1, d2)
}

pub fn frame_byte(f: TimeCodeQuarterFrame) -> u8 {
    use TimeCodeQuarterFrame::*;
    match f {
        FrameCountLsNibble(v) => v.get(),
        FrameCountMsNibble(v) => 0x10 | v.get(),
        SecondsCountLsNibble(v) => 0x20 | v.get(),
        SecondsCountMsNibble(v) => 0x30 | v.get(),
        MinutesCountLsNibble(v) => 0x40 | v.get(),
        MinutesCountMsNibble(v) => 0x50 | v.get(),
        HoursCountLsNibble(v) => 0x60 | v.get(),
        Last {
            hours_count_ms_bit,
            time_code_type,
        } => {
            let t = match time_code_type {
                TimeCodeType::Fps24 => 0,
                TimeCodeType::Fps25 => 1,
                TimeCodeType::Fps30DropFrame => 2,
                TimeCodeType::Fps30NonDrop => 3,
            };
            0x70 | (t << 1) | (hours_count_ms_bit as u8)
        }
    }
}

pub fn all_frames() -> Vec<TimeCodeQuarterFrame> {
    use TimeCodeQuarterFrame::*;
    let mut v = Vec::new();
    for n in 0..16u8 {
        let x = u4(n);
        v.extend([
            FrameCountLsNibble(x),
            FrameCountMsNibble(x),
            SecondsCountLsNibble(x),
            SecondsCountMsNibble(x),
            MinutesCountLsNibble(x),
            MinutesCountMsNibble(x),
            HoursCountLsNibble(x),
        ]);
    }
    for b in [false, true] {
        for t in [
            TimeCodeType::Fps24,
            TimeCodeType::Fps25,
            TimeCodeType::Fps30DropFrame,
            TimeCodeType::Fps30NonDrop,
        ] {
            v.push(Last {
                hours_count_ms_bit: b,
                time_code_type: t,
            });
        }
    }
    v
}

/// Every value of StructuredShortMessage, constructed directly variant by variant.
pub fn for_all_structured(mut f: impl FnMut(StructuredShortMessage)) {
    use StructuredShortMessage as M;
    for c in 0..16u8 {
        let c = ch(c);
        for a in 0..128u8 {
            for b in 0..128u8 {
                f(M::NoteOff { channel: c, key_number: kn(a), velocity: u7(b) });
                f(M::NoteOn { channel: c, key_number: kn(a), velocity: u7(b) });
                f(M::PolyphonicKeyPressure { channel: c, key_number: kn(a), pressure_amount: u7(b) });
                f(M::ControlChange { channel: c, controller_number: cn(a), control_value: u7(b) });
            }
            f(M::ProgramChange { channel: c, program_number: u7(a) });
            f(M::ChannelPressure { channel: c, pressure_amount: u7(a) });
        }
        for v in 0..16384u16 {
            f(M::PitchBendChange { channel: c, pitch_bend_value: u14(v) });
        }
    }
    for v in 0..16384u16 {
        f(M::SongPositionPointer { position: u14(v) });
    }
    for a in 0..128u8 {
        f(M::SongSelect { song_number: u7(a) });
    }
    for fr in all_frames() {
        f(M::TimeCodeQuarterFrame(fr));
    }
    for m in [
        M::SystemExclusiveStart, M::TuneRequest, M::SystemExclusiveEnd, M::TimingClock, M::Start,
        M::Continue, M::Stop, M::ActiveSensing, M::SystemReset, M::SystemCommonUndefined1,
        M::SystemCommonUndefined2, M::SystemRealTimeUndefined1, M::SystemRealTimeUndefined2,
    ] {
        f(m);
    }
}

pub fn run_c01(chk: &Check) {
    chk.rule("all 256x128x128 (status,d1,d2) triples x {Raw,Structured,Foreign3,ForeignBytes} against an independent MIDI-1.0 canonicalisation table; every StructuredShortMessage value built variant by variant; all 128 quarter-frame bytes and 120 frames; all 256 type bytes. non-trivial = distinct valid triples whose structured bytes differ from the raw bytes (canonicalisation has work to do) + distinct structured values round-tripped");
    let images: Mutex<HashSet<StructuredShortMessage>> = Mutex::new(HashSet::new());
    let nontrivial = AtomicU64::new(0);
    (0..=255u8).into_par_iter().for_each(|s| {
        let mut nt = 0u64;
        for d1 in 0..128u8 {
            for d2 in 0..128u8 {
                if c01_triple(chk, s, d1, d2, Some(&images)) {
                    nt += 1;
                }
            }
        }
        nontrivial.fetch_add(nt, Ordering::Relaxed);
        chk.add_eval(128 * 128 * 4);
    });
    let images = images.into_inner().unwrap();
    // direct construction of every structured value
    let mut direct = 0u64;
    let mut missing = 0u64;
    for_all_structured(|v| {
        direct += 1;
        if !images.contains(&v) {
            missing += 1;
            if missing <= 3 {
                vio!(chk, "C01", "structured-value-is-image-of-bytes", "direct", format!("structured|{:?}", v),
                    "directly constructed {:?} is not the image of any byte triple", v);
            }
        }
        let r = catch(|| {
            let b = v.to_bytes();
            let back = StructuredShortMessage::from_bytes(b);
            let r: RawShortMessage = v.to_other();
            (back.ok() == Some(v), r.to_structured() == v, StructuredShortMessage::from_other(&v) == v, v.to_structured() == v)
        });
        match r {
            Ok((a, b, c, d)) => {
                if !(a && b && c && d) {
                    vio!(chk, "C01", "structured-direct-roundtrip", "direct", format!("structured|{:?}", v),
                        "{:?}: from_bytes(to_bytes)==v:{} raw->structured==v:{} from_other==v:{} to_structured==v:{}", v, a, b, c, d);
                }
            }
            Err(p) => vio!(chk, "C01", "structured-direct-panics", "direct", format!("structured|{:?}", v), "{:?}: round trip panicked: {}", v, p),
        }
    });
    chk.add_eval(direct);
    if direct != images.len() as u64 {
        vio!(chk, "C01", "structured-value-count", "direct", String::new(),
            "{} structured values constructed directly but the 2^21 triples have {} distinct images", direct, images.len());
    }
    chk.set("structured_values_direct", json!(direct));
    chk.set("structured_images_of_triples", json!(images.len()));
    // quarter frames
    for b in 0..128u8 {
        let r = catch(|| U7::from(TimeCodeQuarterFrame::from(u7(b))).get());
        let want = canon(0xF1, b, 0).1;
        match r {
            Ok(g) if g == want => {}
            Ok(g) => vio!(chk, "C01", "quarter-frame-u7-roundtrip", "F1", format!("qf|{}", b), "U7 {} -> frame -> U7 gives {}, expected {}", b, g, want),
            Err(p) => vio!(chk, "C01", "quarter-frame-panics", "F1", format!("qf|{}", b), "TimeCodeQuarterFrame::from(U7({})) panicked: {}", b, p),
        }
        let r = catch(|| TimeCodeQuarterFrame::from(u7(b)));
        if let Ok(f) = r {
            if f != expected_frame(b) {
                vio!(chk, "C01", "quarter-frame-decode", "F1", format!("qf|{}", b), "U7 {} decodes to {:?}, table says {:?}", b, f, expected_frame(b));
            }
        }
    }
    let frames = all_frames();
    for f in &frames {
        let r = catch(|| (U7::from(*f).get(), TimeCodeQuarterFrame::from(U7::from(*f))));
        match r {
            Ok((b, back)) => {
                if back != *f || b != frame_byte(*f) {
                    vio!(chk, "C01", "quarter-frame-frame-roundtrip", "F1", format!("frame|{:?}", f), "{:?} -> U7 {} (expected {}) -> {:?}", f, b, frame_byte(*f), back);
                }
            }
            Err(p) => vio!(chk, "C01", "quarter-frame-panics", "F1", format!("frame|{:?}", f), "{:?}: panicked: {}", f, p),
        }
    }
    chk.add_eval(128 + frames.len() as u64);
    // type bytes
    for b in 0..=255u8 {
        let t = ShortMessageType::try_from(b);
        let valid = VALID_TYPE_BYTES.contains(&b);
        match t {
            Ok(t) => {
                if !valid || u8::from(t) != b {
                    vio!(chk, "C01", "type-byte-roundtrip", "type", format!("typebyte|{}", b), "ShortMessageType::try_from({}) = {:?} -> {}", b, t, u8::from(t));
                }
            }
            Err(_) => {
                if valid {
                    vio!(chk, "C01", "type-byte-roundtrip", "type", format!("typebyte|{}", b), "ShortMessageType::try_from({}) rejected a valid type byte", b);
                }
            }
        }
    }
    chk.add_eval(256);
    chk.add_nontrivial(nontrivial.load(Ordering::Relaxed) + images.len() as u64);
    chk.sample(json!({"triple": [0xF1, 0x7F, 0x55], "raw_bytes": [0xF1, 0x7F, 0x55], "structured_bytes_expected": [0xF1, 0x77, 0]}));
    chk.sample(json!({"triple": [0xC5, 9, 77], "structured_bytes_expected": [0xC5, 9, 0]}));
    chk.sample(json!({"triple": [0x7F, 1, 1], "expected": "from_bytes is Err for every factory"}));
}

// ---------------------------------------------------------------------------------------------
// C02
// ---------------------------------------------------------------------------------------------

fn c02_impl<F: Impl>(chk: &Check, s: u8, d1: u8, d2: u8, e: &Expect) {
    let case = format!("triple|{}|{}|{}", s, d1, d2);
    let cls = format!("{}/{}", F::NAME, type_class(s));
    let r = catch(|| {
        let m = F::from_bytes((s, u7(d1), u7(d2))).unwrap();
        let mut bad: Vec<(&'static str, String)> = Vec::new();
        let t = m.r#type();
        if u8::from(t) != e.type_byte {
            bad.push(("type", format!("type() = {:?}, table says type byte {:#X}", t, e.type_byte)));
        }
        let chn = m.channel().map(|c| c.get());
        if chn != e.channel {
            bad.push(("channel", format!("channel() = {:?}, expected {:?}", chn, e.channel)));
        }
        let sp = sup_of(m.super_type());
        if sp != e.sup {
            bad.push((
                if e.sup == Sup::Mode || sp == Sup::Mode { "super_type-channel-mode" } else { "super_type" },
                format!("super_type() = {:?}, table says {:?}", m.super_type(), e.sup),
            ));
        }
        let mc = m.main_category() == MessageMainCategory::Channel;
        if mc != e.is_channel {
            bad.push(("main_category", format!("main_category() = {:?}", m.main_category())));
        }
        if t.super_type().main_category() != m.main_category() {
            bad.push(("type-main_category-agrees", format!("type().super_type().main_category() = {:?} but main_category() = {:?}", t.super_type().main_category(), m.main_category())));
        }
        let fuzzy_ok = match t.super_type() {
            FuzzyMessageSuperType::Channel => matches!(m.super_type(), MessageSuperType::ChannelVoice | MessageSuperType::ChannelMode),
            FuzzyMessageSuperType::SystemCommon => m.super_type() == MessageSuperType::SystemCommon,
            FuzzyMessageSuperType::SystemRealTime => m.super_type() == MessageSuperType::SystemRealTime,
            FuzzyMessageSuperType::SystemExclusive => m.super_type() == MessageSuperType::SystemExclusive,
        };
        if !fuzzy_ok {
            bad.push(("type-super_type-agrees", format!("type().super_type() = {:?} but super_type() = {:?}", t.super_type(), m.super_type())));
        }
        if m.super_type().main_category() != m.main_category() {
            bad.push(("super_type-main_category-agrees", "super_type().main_category() != main_category()".into()));
        }
        macro_rules! acc {
            ($name:literal, $got:expr, $want:expr) => {
                let g = $got;
                if g != $want {
                    bad.push(($name, format!("{}() = {:?}, expected {:?}", $name, g, $want)));
                }
            };
        }
        acc!("key_number", m.key_number().map(|v| v.get()), e.key);
        acc!("velocity", m.velocity().map(|v| v.get()), e.vel);
        acc!("controller_number", m.controller_number().map(|v| v.get()), e.ctrl);
        acc!("control_value", m.control_value().map(|v| v.get()), e.cval);
        acc!("program_number", m.program_number().map(|v| v.get()), e.prog);
        acc!("pressure_amount", m.pressure_amount().map(|v| v.get()), e.pressure);
        acc!("pitch_bend_value", m.pitch_bend_value().map(|v| v.get()), e.bend);
        acc!("is_note", m.is_note(), e.is_note);
        acc!("is_note_on", m.is_note_on(), e.note_on);
        acc!("is_note_off", m.is_note_off(), e.note_off);
        let st = m.to_structured();
        if st != expected_structured(s, d1, d2) {
            bad.push(("to_structured", format!("to_structured() = {:?}, table says {:?}", st, expected_structured(s, d1, d2))));
        }
        bad
    });
    match r {
        Ok(bad) => {
            for (rule, d) in bad {
                vio!(chk, "C02", rule, cls.clone(), &case, "{} ({:#04X},{},{}): {}", F::NAME, s, d1, d2, d);
            }
        }
        Err(p) => vio!(chk, "C02", "accessor-panics", cls, &case, "{} ({:#04X},{},{}): accessor panicked: {}", F::NAME, s, d1, d2, p),
    }
}

/// Method-call syntax on the CONCRETE types (an inherent method of the same name would win over the
/// trait method there) and through one more level of reference (`(&&x).m()` resolves to an
/// `impl ShortMessage for &T`, if the crate ever adds one, and to the type's own impl otherwise).
/// All must agree with the table.
macro_rules! concrete_accessors {
    ($chk:expr, $x:expr, $tyname:expr, $e:expr, $s:expr, $d1:expr, $d2:expr, $structured:expr) => {{
        let x = $x;
        let e: &Expect = $e;
        let mut bad: Vec<(&'static str, String)> = Vec::new();
        // receivers through which method resolution would pick up an impl for a wrapper type
        // (&T, &mut T, Box<T>, Rc<T>, Arc<T>) if the crate had one, and the type's own impl otherwise
        let mut y = x;
        let bx = Box::new(x);
        let rc = std::rc::Rc::new(x);
        let arc = std::sync::Arc::new(x);
        macro_rules! both {
            ($name:literal, $call:ident, $map:expr, $want:expr) => {{
                let direct = $map(x.$call());
                let via_ref = $map((&&x).$call());
                if direct != $want {
                    bad.push(($name, format!("{}.{}() with method-call syntax on the concrete type = {:?}, expected {:?}", $tyname, $name, direct, $want)));
                }
                if via_ref != $want {
                    bad.push(($name, format!("(&&{}).{}() = {:?}, expected {:?}", $tyname, $name, via_ref, $want)));
                }
                let via_mut = $map((&mut y).$call());
                if via_mut != $want {
                    bad.push(($name, format!("(&mut {}).{}() = {:?}, expected {:?}", $tyname, $name, via_mut, $want)));
                }
                let via_box = $map(bx.$call());
                if via_box != $want {
                    bad.push(($name, format!("Box<{}>.{}() = {:?}, expected {:?}", $tyname, $name, via_box, $want)));
                }
                let via_rc = $map(rc.$call());
                if via_rc != $want {
                    bad.push(($name, format!("Rc<{}>.{}() = {:?}, expected {:?}", $tyname, $name, via_rc, $want)));
                }
                let via_arc = $map(arc.$call());
                if via_arc != $want {
                    bad.push(($name, format!("Arc<{}>.{}() = {:?}, expected {:?}", $tyname, $name, via_arc, $want)));
                }
            }};
        }
        both!("channel", channel, |o: Option<Channel>| o.map(|c| c.get()), e.channel);
        both!("key_number", key_number, |o: Option<KeyNumber>| o.map(|c| c.get()), e.key);
        both!("velocity", velocity, |o: Option<U7>| o.map(|c| c.get()), e.vel);
        both!("controller_number", controller_number, |o: Option<ControllerNumber>| o.map(|c| c.get()), e.ctrl);
        both!("control_value", control_value, |o: Option<U7>| o.map(|c| c.get()), e.cval);
        both!("program_number", program_number, |o: Option<U7>| o.map(|c| c.get()), e.prog);
        both!("pressure_amount", pressure_amount, |o: Option<U7>| o.map(|c| c.get()), e.pressure);
        both!("pitch_bend_value", pitch_bend_value, |o: Option<U14>| o.map(|c| c.get()), e.bend);
        both!("is_note", is_note, |b: bool| b, e.is_note);
        both!("is_note_on", is_note_on, |b: bool| b, e.note_on);
        both!("is_note_off", is_note_off, |b: bool| b, e.note_off);
        both!("type", r#type, |t: ShortMessageType| u8::from(t), e.type_byte);
        both!("super_type", super_type, |t: MessageSuperType| sup_of(t), e.sup);
        both!("main_category", main_category, |t: MessageMainCategory| t == MessageMainCategory::Channel, e.is_channel);
        both!("to_structured", to_structured, |t: StructuredShortMessage| t, expected_structured($s, $d1, $d2));
        let wantb = if $structured { e.canon } else { ($s, $d1, $d2) };
        both!("to_bytes", to_bytes, |t: (u8, U7, U7)| (t.0, t.1.get(), t.2.get()), wantb);
        both!("status_byte", status_byte, |t: u8| t, wantb.0);
        both!("data_byte_1", data_byte_1, |t: U7| t.get(), wantb.1);
        both!("data_byte_2", data_byte_2, |t: U7| t.get(), wantb.2);
        for (rule, d) in bad {
            vio!($chk, "C02", rule, format!("{}-concrete/{}", $tyname, type_class($s)), format!("triple|{}|{}|{}", $s, $d1, $d2), "{} ({:#04X},{},{}): {}", $tyname, $s, $d1, $d2, d);
        }
    }};
}

pub fn c02_concrete(chk: &Check, s: u8, d1: u8, d2: u8, e: &Expect) {
    let r = catch(|| {
        let raw = RawShortMessage::from_bytes((s, u7(d1), u7(d2))).unwrap();
        let st = StructuredShortMessage::from_bytes((s, u7(d1), u7(d2))).unwrap();
        concrete_accessors!(chk, raw, "RawShortMessage", e, s, d1, d2, false);
        concrete_accessors!(chk, st, "StructuredShortMessage", e, s, d1, d2, true);
    });
    if let Err(p) = r {
        vio!(chk, "C02", "accessor-panics", format!("concrete/{}", type_class(s)), format!("triple|{}|{}|{}", s, d1, d2), "({:#04X},{},{}): accessor on a concrete type panicked: {}", s, d1, d2, p);
    }
}

pub fn c02_triple(chk: &Check, s: u8, d1: u8, d2: u8) {
    let e = expect(s, d1, d2);
    c02_impl::<RawShortMessage>(chk, s, d1, d2, &e);
    c02_impl::<StructuredShortMessage>(chk, s, d1, d2, &e);
    c02_impl::<Foreign3>(chk, s, d1, d2, &e);
    c02_concrete(chk, s, d1, d2, &e);
}

/// History independence of classification: every ordered pair of status bytes (with four data
/// byte combinations each), decoded and classified back to back on one thread, both judged.
fn c02_pairs(chk: &Check) -> u64 {
    let data = [(0u8, 0u8), (1, 127), (127, 1), (64, 64)];
    (0x80..=0xFFu8).into_par_iter().for_each(|s1| {
        for &(a1, a2) in &data {
            for s2 in 0x80..=0xFFu8 {
                for &(b1, b2) in &data {
                    c02_triple(chk, s1, a1, a2);
                    c02_triple(chk, s2, b1, b2);
                }
            }
        }
    });
    128 * 4 * 128 * 4
}

pub fn run_c02(chk: &Check) {
    chk.rule("all 128x128x128 valid (status,d1,d2) triples x {Raw,Structured,Foreign3} through generic code, and Raw/Structured once more through method-call syntax on the concrete type (where an inherent method would shadow the trait method) and through further receiver types ((&&x).m(), (&mut x).m(), Box / Rc / Arc of x: method resolution would pick up an impl for &T, &mut T or a smart pointer if there were one): every classification method and field accessor against an independently written MIDI-1.0 table; all 256 bytes for ShortMessageType; history independence: every ordered pair of (status byte x 4 data combinations) classified back to back on one thread; non-trivial = distinct (impl,triple) cases in which at least one field accessor must return Some (a data-carrying channel message) or the message is Channel Mode");
    let nontrivial = AtomicU64::new(0);
    (0x80..=0xFFu8).into_par_iter().for_each(|s| {
        let mut nt = 0u64;
        for d1 in 0..128u8 {
            for d2 in 0..128u8 {
                c02_triple(chk, s, d1, d2);
                if s < 0xF0 {
                    nt += 3;
                }
            }
        }
        nontrivial.fetch_add(nt, Ordering::Relaxed);
        chk.add_eval(128 * 128 * 7);
    });
    chk.add_nontrivial(nontrivial.load(Ordering::Relaxed));
    // ShortMessageType table
    for b in 0..=255u8 {
        let valid = VALID_TYPE_BYTES.contains(&b);
        match ShortMessageType::try_from(b) {
            Ok(t) => {
                let want = match b {
                    0x80..=0xEF => FuzzyMessageSuperType::Channel,
                    0xF0 => FuzzyMessageSuperType::SystemExclusive,
                    0xF1..=0xF7 => FuzzyMessageSuperType::SystemCommon,
                    _ => FuzzyMessageSuperType::SystemRealTime,
                };
                if !valid || u8::from(t) != b || t.super_type() != want {
                    vio!(chk, "C02", "type-table", "type", format!("typebyte|{}", b), "type byte {:#X}: {:?}, into u8 {:#X}, super_type {:?} (expected {:?})", b, t, u8::from(t), t.super_type(), want);
                }
                let mc = t.super_type().main_category() == MessageMainCategory::Channel;
                if mc != (b < 0xF0) {
                    vio!(chk, "C02", "type-main-category", "type", format!("typebyte|{}", b), "type byte {:#X}: fuzzy main category {:?}", b, t.super_type().main_category());
                }
            }
            Err(_) => {
                if valid {
                    vio!(chk, "C02", "type-table", "type", format!("typebyte|{}", b), "valid type byte {:#X} rejected", b);
                }
            }
        }
    }
    chk.add_eval(256);
    let pairs = c02_pairs(chk);
    chk.add_eval(pairs);
    chk.push("ordered_pairs", json!({"status_bytes": 128, "data_combinations": 4, "pairs": pairs}));
    if ShortMessageType::MIN != 0x80 || ShortMessageType::MAX != 0xFF {
        vio!(chk, "C02", "type-min-max", "type", String::new(), "ShortMessageType::MIN/MAX = {:#X}/{:#X}", ShortMessageType::MIN, ShortMessageType::MAX);
    }
    chk.sample(json!({"triple": [0xB3, 120, 0], "expected": {"type": "ControlChange", "channel": 3, "super_type": "ChannelMode", "controller_number": 120}}));
    chk.sample(json!({"triple": [0x95, 60, 0], "expected": {"is_note_on": false, "is_note_off": true, "velocity": 0}}));
    chk.sample(json!({"triple": [0xE0, 1, 2], "expected": {"pitch_bend_value": 257}}));
}

// ---------------------------------------------------------------------------------------------
// C03
// ---------------------------------------------------------------------------------------------

#[derive(PartialEq, Debug, Clone)]
pub struct Obs {
    bytes: (u8, u8, u8),
    getters: (u8, u8, u8),
    ty: ShortMessageType,
    sup: MessageSuperType,
    main: MessageMainCategory,
    note_on: bool,
    note_off: bool,
    is_note: bool,
    channel: Option<Channel>,
    key: Option<KeyNumber>,
    vel: Option<U7>,
    ctrl: Option<ControllerNumber>,
    cval: Option<U7>,
    prog: Option<U7>,
    pressure: Option<U7>,
    bend: Option<U14>,
    structured: StructuredShortMessage,
}

pub fn obs<M: ShortMessage>(m: &M) -> Obs {
    Obs {
        bytes: bytes_u8(m),
        getters: getters_u8(m),
        ty: m.r#type(),
        sup: m.super_type(),
        main: m.main_category(),
        note_on: m.is_note_on(),
        note_off: m.is_note_off(),
        is_note: m.is_note(),
        channel: m.channel(),
        key: m.key_number(),
        vel: m.velocity(),
        ctrl: m.controller_number(),
        cval: m.control_value(),
        prog: m.program_number(),
        pressure: m.pressure_amount(),
        bend: m.pitch_bend_value(),
        structured: m.to_structured(),
    }
}

fn canon_obs(mut o: Obs) -> Obs {
    o.bytes = canon(o.bytes.0, o.bytes.1, o.bytes.2);
    o.getters = canon(o.getters.0, o.getters.1, o.getters.2);
    o
}

fn diff(a: &Obs, b: &Obs) -> String {
    let mut v = Vec::new();
    macro_rules! d {
        ($f:ident) => {
            if a.$f != b.$f {
                v.push(format!("{}: {:?} vs {:?}", stringify!($f), a.$f, b.$f));
            }
        };
    }
    d!(bytes); d!(getters); d!(ty); d!(sup); d!(main); d!(note_on); d!(note_off); d!(is_note);
    d!(channel); d!(key); d!(vel); d!(ctrl); d!(cval); d!(prog); d!(pressure); d!(bend); d!(structured);
    v.join(", ")
}

fn c03_convert<X: Impl, Y: Impl>(x: &X, ox: &Obs, bad: &mut Vec<(String, String)>) {
    let y1: Y = x.to_other();
    let y2: Y = Y::from_other(x);
    let want = if Y::STRUCTURED { canon_obs(ox.clone()) } else { ox.clone() };
    let o1 = obs(&y1);
    let o2 = obs(&y2);
    if o1 != want {
        bad.push((format!("to_other/{}->{}", X::NAME, Y::NAME), diff(&o1, &want)));
    }
    if o2 != want {
        bad.push((format!("from_other/{}->{}", X::NAME, Y::NAME), diff(&o2, &want)));
    }
    if y1 != y2 {
        bad.push((format!("to_other-vs-from_other/{}->{}", X::NAME, Y::NAME), format!("{:?} vs {:?}", y1, y2)));
    }
}

fn c03_from<X: Impl>(x: &X, reference: &Obs, s: u8, d1: u8, d2: u8, bad: &mut Vec<(String, String)>) {
    let ox = obs(x);
    let mut want = reference.clone();
    if X::STRUCTURED {
        want = canon_obs(want);
    }
    if ox != want {
        bad.push((format!("accessors/{}-vs-Raw", X::NAME), diff(&ox, &want)));
    }
    if !X::STRUCTURED && ox.bytes != (s, d1, d2) {
        bad.push((format!("bytes/{}", X::NAME), format!("{:?}", ox.bytes)));
    }
    c03_convert::<X, RawShortMessage>(x, &ox, bad);
    c03_convert::<X, StructuredShortMessage>(x, &ox, bad);
    c03_convert::<X, Foreign3>(x, &ox, bad);
    c03_convert::<X, ForeignBytes>(x, &ox, bad);
    // conversion INTO a third-party type whose own from_bytes is stricter than the provided one:
    // to_other / from_other must not route through overridable methods
    c03_convert::<X, ForeignStrict>(x, &ox, bad);
    // ... and into one whose from_bytes refuses everything
    c03_convert::<X, ForeignRefusing>(x, &ox, bad);
}

pub fn c03_triple(chk: &Check, s: u8, d1: u8, d2: u8) {
    let case = format!("triple|{}|{}|{}", s, d1, d2);
    let r = catch(|| {
        let mut bad = Vec::new();
        let r = RawShortMessage::from_bytes((s, u7(d1), u7(d2))).unwrap();
        let reference = obs(&r);
        let st = r.to_structured();
        let f3 = Foreign3 { s, d1: u7(d1), d2: u7(d2) };
        let fb = ForeignBytes(((s as u32) << 16) | ((d1 as u32) << 8) | d2 as u32);
        c03_from(&r, &reference, s, d1, d2, &mut bad);
        c03_from(&st, &reference, s, d1, d2, &mut bad);
        c03_from(&f3, &reference, s, d1, d2, &mut bad);
        c03_from(&fb, &reference, s, d1, d2, &mut bad);
        let fs = ForeignStrict { s, d1: u7(d1), d2: u7(d2) };
        c03_from(&fs, &reference, s, d1, d2, &mut bad);
        bad
    });
    match r {
        Ok(bad) => {
            for (rule, d) in bad {
                vio!(chk, "C03", rule, type_class(s), &case, "triple ({:#04X},{},{}): {}", s, d1, d2, d);
            }
        }
        Err(p) => vio!(chk, "C03", "panics", type_class(s), &case, "triple ({:#04X},{},{}) panicked: {}", s, d1, d2, p),
    }
}

pub fn run_c03_sweep(chk: &Check) {
    chk.rule("all 2^21 valid triples x 5 representations {Raw, Structured converted from it, Foreign3 (three getters only), ForeignBytes (overrides to_bytes), ForeignStrict (overrides from_bytes to refuse the undefined status bytes)}: all 20 trait methods compared; to_other/from_other between all 25 ordered pairs commute with every accessor; only permitted difference: Structured reports canonical bytes; history independence: every ordered pair of (status byte x 4 data combinations) taken through all of this back to back on one thread. non-trivial = distinct triples on which at least one representation legitimately differs in bytes (canonicalisation) or that carry data fields");
    let nontrivial = AtomicU64::new(0);
    (0x80..=0xFFu8).into_par_iter().for_each(|s| {
        let mut nt = 0u64;
        for d1 in 0..128u8 {
            for d2 in 0..128u8 {
                c03_triple(chk, s, d1, d2);
                if s < 0xF0 || canon(s, d1, d2) != (s, d1, d2) {
                    nt += 1;
                }
            }
        }
        nontrivial.fetch_add(nt, Ordering::Relaxed);
        // 4 sources x (1 accessor comparison + 4 targets x 2 conversions)
        chk.add_eval(128 * 128 * 4 * 9);
    });
    chk.add_nontrivial(nontrivial.load(Ordering::Relaxed));
    // History independence of the conversions (round nine, C03-h1: a per-thread memo of the last
    // decode whose key drops status bits): every ordered pair of (status byte x 4 data combinations),
    // both triples taken through all representations and conversions back to back on one thread.
    let data = [(0u8, 0u8), (1, 127), (127, 1), (64, 64)];
    (0x80..=0xFFu8).into_par_iter().for_each(|s1| {
        for &(a1, a2) in &data {
            for s2 in 0x80..=0xFFu8 {
                for &(b1, b2) in &data {
                    c03_triple(chk, s1, a1, a2);
                    c03_triple(chk, s2, b1, b2);
                }
            }
        }
        chk.add_eval(4 * 128 * 4 * 2 * 4 * 9);
    });
    chk.push("ordered_pairs", json!({"status_bytes": 128, "data_combinations": 4, "pairs": 128 * 4 * 128 * 4}));
    chk.sample(json!({"triple": [0xD2, 5, 99], "representations": ["Raw (0xD2,5,99)", "Structured ChannelPressure{2,5} bytes (0xD2,5,0)", "Foreign3", "ForeignBytes"], "compared": "20 methods, 16 ordered conversions"}));
}

// ---------------------------------------------------------------------------------------------
// C06
// ---------------------------------------------------------------------------------------------

static C06_NONZERO: AtomicU64 = AtomicU64::new(0);

fn c06_expect<F: Impl>(chk: &Check, name: &str, args: &str, m: &F, want_raw: (u8, u8, u8)) {
    if want_raw.1 != 0 || want_raw.2 != 0 {
        C06_NONZERO.fetch_add(1, Ordering::Relaxed);
    }
    let want = if F::STRUCTURED { canon(want_raw.0, want_raw.1, want_raw.2) } else { want_raw };
    let got = bytes_u8(m);
    let cls = format!("{}/{}", name, F::NAME);
    if got != want {
        vio!(chk, "C06", "constructor-bytes", cls, format!("ctor|{}|{}|{}", name, F::NAME, args), "{}::{}({}) has bytes {:?}, expected {:?}", F::NAME, name, args, got, want);
        return;
    }
    // accessors follow the table for these bytes
    let e = expect(want.0, want.1, want.2);
    let ok = u8::from(m.r#type()) == e.type_byte
        && m.channel().map(|c| c.get()) == e.channel
        && m.key_number().map(|v| v.get()) == e.key
        && m.velocity().map(|v| v.get()) == e.vel
        && m.controller_number().map(|v| v.get()) == e.ctrl
        && m.control_value().map(|v| v.get()) == e.cval
        && m.program_number().map(|v| v.get()) == e.prog
        && m.pressure_amount().map(|v| v.get()) == e.pressure
        && m.pitch_bend_value().map(|v| v.get()) == e.bend;
    if !ok {
        vio!(chk, "C06", "constructor-accessors", cls, format!("ctor|{}|{}|{}", name, F::NAME, args), "{}::{}({}): accessors do not return the arguments", F::NAME, name, args);
    }
}

fn c06_factory<F: Impl>(chk: &Check) {
    let evals = AtomicU64::new(0);
    // three-argument channel messages
    (0..16u8).into_par_iter().for_each(|c| {
        let r = catch(|| {
            let mut n = 0u64;
            for a in 0..128u8 {
                for b in 0..128u8 {
                    let args = format!("{},{},{}", c, a, b);
                    c06_expect(chk, "note_on", &args, &F::note_on(ch(c), kn(a), u7(b)), (0x90 | c, a, b));
                    c06_expect(chk, "note_off", &args, &F::note_off(ch(c), kn(a), u7(b)), (0x80 | c, a, b));
                    c06_expect(chk, "control_change", &args, &F::control_change(ch(c), cn(a), u7(b)), (0xB0 | c, a, b));
                    c06_expect(chk, "polyphonic_key_pressure", &args, &F::polyphonic_key_pressure(ch(c), kn(a), u7(b)), (0xA0 | c, a, b));
                    n += 4;
                }
                let args = format!("{},{}", c, a);
                c06_expect(chk, "program_change", &args, &F::program_change(ch(c), u7(a)), (0xC0 | c, a, 0));
                c06_expect(chk, "channel_pressure", &args, &F::channel_pressure(ch(c), u7(a)), (0xD0 | c, a, 0));
                n += 2;
            }
            for v in 0..16384u16 {
                let args = format!("{},{}", c, v);
                let m = F::pitch_bend_change(ch(c), u14(v));
                c06_expect(chk, "pitch_bend_change", &args, &m, (0xE0 | c, (v & 0x7f) as u8, (v >> 7) as u8));
                if m.pitch_bend_value().map(|x| x.get()) != Some(v) {
                    vio!(chk, "C06", "constructor-accessors", format!("pitch_bend_change/{}", F::NAME), format!("ctor|pitch_bend_change|{}|{}", F::NAME, args), "{}::pitch_bend_change({}) reports {:?}", F::NAME, args, m.pitch_bend_value());
                }
                n += 1;
            }
            n
        });
        match r {
            Ok(n) => {
                evals.fetch_add(n, Ordering::Relaxed);
            }
            Err(p) => vio!(chk, "C06", "constructor-panics", format!("channel-ctors/{}", F::NAME), format!("ctor|channel|{}|{}", F::NAME, c), "{} channel constructors on channel {} panicked on valid arguments: {}", F::NAME, c, p),
        }
    });
    let r = catch(|| {
        let mut n = 0u64;
        for v in 0..16384u16 {
            c06_expect(chk, "song_position_pointer", &v.to_string(), &F::song_position_pointer(u14(v)), (0xF2, (v & 0x7f) as u8, (v >> 7) as u8));
            n += 1;
        }
        for a in 0..128u8 {
            c06_expect(chk, "song_select", &a.to_string(), &F::song_select(u7(a)), (0xF3, a, 0));
            n += 1;
        }
        for f in all_frames() {
            c06_expect(chk, "time_code_quarter_frame", &format!("{:?}", f), &F::time_code_quarter_frame(f), (0xF1, frame_byte(f), 0));
            n += 1;
        }
        c06_expect(chk, "system_exclusive_start", "", &F::system_exclusive_start(), (0xF0, 0, 0));
        c06_expect(chk, "tune_request", "", &F::tune_request(), (0xF6, 0, 0));
        c06_expect(chk, "system_exclusive_end", "", &F::system_exclusive_end(), (0xF7, 0, 0));
        c06_expect(chk, "timing_clock", "", &F::timing_clock(), (0xF8, 0, 0));
        c06_expect(chk, "start", "", &F::start(), (0xFA, 0, 0));
        c06_expect(chk, "continue", "", &F::r#continue(), (0xFB, 0, 0));
        c06_expect(chk, "stop", "", &F::stop(), (0xFC, 0, 0));
        c06_expect(chk, "active_sensing", "", &F::active_sensing(), (0xFE, 0, 0));
        c06_expect(chk, "system_reset", "", &F::system_reset(), (0xFF, 0, 0));
        n + 9
    });
    match r {
        Ok(n) => {
            evals.fetch_add(n, Ordering::Relaxed);
        }
        Err(p) => vio!(chk, "C06", "constructor-panics", format!("system-ctors/{}", F::NAME), format!("ctor|system|{}", F::NAME), "{} system constructors panicked on valid arguments: {}", F::NAME, p),
    }
    // generic constructors: all 23 types
    for &tb in VALID_TYPE_BYTES.iter() {
        let t = type_from_byte(tb);
        let is_channel = tb < 0xF0;
        let is_common = (0xF1..=0xF7).contains(&tb);
        let is_rt = tb >= 0xF8;
        // channel_message
        let probe = catch(|| F::channel_message(t, ch(3), u7(5), u7(7)));
        if probe.is_ok() != is_channel {
            vio!(chk, "C06", "generic-panics-iff-wrong-category", format!("channel_message/{}", F::NAME), format!("generic|channel_message|{}|{}", F::NAME, tb),
                "{}::channel_message({:?}, ..) panicked={} but type is channel={}", F::NAME, t, probe.is_err(), is_channel);
        } else if is_channel {
            (0..16u8).into_par_iter().for_each(|c| {
                let r = catch(|| {
                    for a in 0..128u8 {
                        for b in 0..128u8 {
                            c06_expect(chk, "channel_message", &format!("{:?},{},{},{}", t, c, a, b), &F::channel_message(t, ch(c), u7(a), u7(b)), (tb | c, a, b));
                        }
                    }
                });
                if let Err(p) = r {
                    vio!(chk, "C06", "constructor-panics", format!("channel_message/{}", F::NAME), format!("generic|channel_message|{}|{}", F::NAME, tb), "{}::channel_message({:?}, ch {}) panicked on valid arguments: {}", F::NAME, t, c, p);
                }
            });
            evals.fetch_add(16 * 128 * 128, Ordering::Relaxed);
        }
        let probe = catch(|| F::system_common_message(t, u7(5), u7(7)));
        if probe.is_ok() != is_common {
            vio!(chk, "C06", "generic-panics-iff-wrong-category", format!("system_common_message/{}", F::NAME), format!("generic|system_common_message|{}|{}", F::NAME, tb),
                "{}::system_common_message({:?}, ..) panicked={} but type is system-common={}", F::NAME, t, probe.is_err(), is_common);
        } else if is_common {
            let r = catch(|| {
                for a in 0..128u8 {
                    for b in 0..128u8 {
                        c06_expect(chk, "system_common_message", &format!("{:?},{},{}", t, a, b), &F::system_common_message(t, u7(a), u7(b)), (tb, a, b));
                    }
                }
            });
            if let Err(p) = r {
                vio!(chk, "C06", "constructor-panics", format!("system_common_message/{}", F::NAME), format!("generic|system_common_message|{}|{}", F::NAME, tb), "{}::system_common_message({:?}) panicked on valid arguments: {}", F::NAME, t, p);
            }
            evals.fetch_add(128 * 128, Ordering::Relaxed);
        }
        let probe = catch(|| F::system_real_time_message(t));
        if probe.is_ok() != is_rt {
            vio!(chk, "C06", "generic-panics-iff-wrong-category", format!("system_real_time_message/{}", F::NAME), format!("generic|system_real_time_message|{}|{}", F::NAME, tb),
                "{}::system_real_time_message({:?}) panicked={} but type is real-time={}", F::NAME, t, probe.is_err(), is_rt);
        } else if let Ok(m) = probe {
            c06_expect(chk, "system_real_time_message", &format!("{:?}", t), &m, (tb, 0, 0));
        }
        evals.fetch_add(3, Ordering::Relaxed);
    }
    chk.add_eval(evals.load(Ordering::Relaxed));
}

fn expect_panic<R>(chk: &Check, what: &str, should_panic: bool, f: impl FnOnce() -> R) -> Option<R> {
    let r = catch(f);
    if r.is_err() != should_panic {
        vio!(chk, "C06", "shorthand-panics-iff-out-of-range", what.split('(').next().unwrap_or(what).to_string(), format!("shorthand|{}", what),
            "test_util::{} panicked={} expected panic={}", what, r.is_err(), should_panic);
    }
    r.ok()
}

fn c06_test_util(chk: &Check) {
    use helgoboss_midi::test_util as tu;
    let mut n = 0u64;
    // scalar helpers: all u8 / u16 values
    for v in 0..=255u8 {
        if let Some(x) = expect_panic(chk, &format!("u4({})", v), v > 15, || tu::u4(v)) {
            if x.get() != v { vio!(chk, "C06", "shorthand-value", "u4", format!("shorthand|u4({})", v), "u4({}) = {:?}", v, x); }
        }
        if let Some(x) = expect_panic(chk, &format!("u7({})", v), v > 127, || tu::u7(v)) {
            if x.get() != v { vio!(chk, "C06", "shorthand-value", "u7", format!("shorthand|u7({})", v), "u7({}) = {:?}", v, x); }
        }
        if let Some(x) = expect_panic(chk, &format!("channel({})", v), v > 15, || tu::channel(v)) {
            if x.get() != v { vio!(chk, "C06", "shorthand-value", "channel", format!("shorthand|channel({})", v), "channel({}) = {:?}", v, x); }
        }
        if let Some(x) = expect_panic(chk, &format!("key_number({})", v), v > 127, || tu::key_number(v)) {
            if x.get() != v { vio!(chk, "C06", "shorthand-value", "key_number", format!("shorthand|key_number({})", v), "key_number({}) = {:?}", v, x); }
        }
        if let Some(x) = expect_panic(chk, &format!("controller_number({})", v), v > 127, || tu::controller_number(v)) {
            if x.get() != v { vio!(chk, "C06", "shorthand-value", "controller_number", format!("shorthand|controller_number({})", v), "controller_number({}) = {:?}", v, x); }
        }
        n += 5;
    }
    for v in 0..=65535u16 {
        if let Some(x) = expect_panic(chk, &format!("u14({})", v), v > 16383, || tu::u14(v)) {
            if x.get() != v { vio!(chk, "C06", "shorthand-value", "u14", format!("shorthand|u14({})", v), "u14({}) = {:?}", v, x); }
        }
        n += 1;
    }
    // in-range: equal to the factory call
    type R = RawShortMessage;
    let bad8: [u8; 4] = [128, 129, 200, 255];
    let badc: [u8; 5] = [16, 17, 128, 200, 255];
    let bad16: [u16; 4] = [16384, 16385, 40000, 65535];
    let r = catch(|| {
        let mut n = 0u64;
        for c in 0..16u8 {
            for a in 0..128u8 {
                for b in 0..128u8 {
                    let eq = tu::note_on(c, a, b) == R::note_on(ch(c), kn(a), u7(b))
                        && tu::note_off(c, a, b) == R::note_off(ch(c), kn(a), u7(b))
                        && tu::control_change(c, a, b) == R::control_change(ch(c), cn(a), u7(b))
                        && tu::polyphonic_key_pressure(c, a, b) == R::polyphonic_key_pressure(ch(c), kn(a), u7(b));
                    if !eq {
                        vio!(chk, "C06", "shorthand-equals-factory", "channel3", format!("shorthand|chan3({},{},{})", c, a, b), "a three-argument shorthand differs from the factory call for ({},{},{})", c, a, b);
                    }
                    n += 4;
                }
                if tu::program_change(c, a) != R::program_change(ch(c), u7(a)) || tu::channel_pressure(c, a) != R::channel_pressure(ch(c), u7(a)) {
                    vio!(chk, "C06", "shorthand-equals-factory", "channel2", format!("shorthand|chan2({},{})", c, a), "a two-argument shorthand differs from the factory call for ({},{})", c, a);
                }
                n += 2;
            }
            for v in 0..16384u16 {
                if tu::pitch_bend_change(c, v) != R::pitch_bend_change(ch(c), u14(v)) {
                    vio!(chk, "C06", "shorthand-equals-factory", "pitch_bend_change", format!("shorthand|pitch_bend_change({},{})", c, v), "pitch_bend_change({},{}) differs", c, v);
                }
                n += 1;
            }
        }
        for v in 0..16384u16 {
            if tu::song_position_pointer(v) != R::song_position_pointer(u14(v)) {
                vio!(chk, "C06", "shorthand-equals-factory", "song_position_pointer", format!("shorthand|song_position_pointer({})", v), "song_position_pointer({}) differs", v);
            }
            n += 1;
        }
        for a in 0..128u8 {
            if tu::song_select(a) != R::song_select(u7(a)) {
                vio!(chk, "C06", "shorthand-equals-factory", "song_select", format!("shorthand|song_select({})", a), "song_select({}) differs", a);
            }
            n += 1;
        }
        for f in all_frames() {
            if tu::time_code_quarter_frame(f) != R::time_code_quarter_frame(f) {
                vio!(chk, "C06", "shorthand-equals-factory", "time_code_quarter_frame", format!("shorthand|time_code_quarter_frame({:?})", f), "time_code_quarter_frame({:?}) differs", f);
            }
            n += 1;
        }
        let pairs: [(R, R, &str); 9] = [
            (tu::system_exclusive_start(), R::system_exclusive_start(), "system_exclusive_start"),
            (tu::tune_request(), R::tune_request(), "tune_request"),
            (tu::system_exclusive_end(), R::system_exclusive_end(), "system_exclusive_end"),
            (tu::timing_clock(), R::timing_clock(), "timing_clock"),
            (tu::start(), R::start(), "start"),
            (tu::r#continue(), R::r#continue(), "continue"),
            (tu::stop(), R::stop(), "stop"),
            (tu::active_sensing(), R::active_sensing(), "active_sensing"),
            (tu::system_reset(), R::system_reset(), "system_reset"),
        ];
        for (a, b, name) in pairs.iter() {
            if a != b {
                vio!(chk, "C06", "shorthand-equals-factory", *name, format!("shorthand|{}()", name), "{}() differs from the factory call", name);
            }
            n += 1;
        }
        n
    });
    match r {
        Ok(k) => n += k,
        Err(p) => vio!(chk, "C06", "shorthand-panics-in-range", "channel", "shorthand|in-range".to_string(), "a test_util shorthand panicked on in-range arguments: {}", p),
    }
    // short(): all status bytes x boundary data bytes
    for s in 0..=255u8 {
        for &(a, b) in &[(0u8, 0u8), (127, 127), (5, 7), (128, 0), (0, 128), (255, 255)] {
            let should = s < 0x80 || a > 127 || b > 127;
            if let Some(m) = expect_panic(chk, &format!("short({},{},{})", s, a, b), should, || tu::short(s, a, b)) {
                if bytes_u8(&m) != (s, a, b) {
                    vio!(chk, "C06", "shorthand-value", "short", format!("shorthand|short({},{},{})", s, a, b), "short({},{},{}) = {:?}", s, a, b, m);
                }
            }
            n += 1;
        }
    }
    // out-of-range: each argument position
    for &x in badc.iter() {
        expect_panic(chk, &format!("note_on({},1,1)", x), true, || tu::note_on(x, 1, 1));
        expect_panic(chk, &format!("note_off({},1,1)", x), true, || tu::note_off(x, 1, 1));
        expect_panic(chk, &format!("control_change({},1,1)", x), true, || tu::control_change(x, 1, 1));
        expect_panic(chk, &format!("polyphonic_key_pressure({},1,1)", x), true, || tu::polyphonic_key_pressure(x, 1, 1));
        expect_panic(chk, &format!("program_change({},1)", x), true, || tu::program_change(x, 1));
        expect_panic(chk, &format!("channel_pressure({},1)", x), true, || tu::channel_pressure(x, 1));
        expect_panic(chk, &format!("pitch_bend_change({},1)", x), true, || tu::pitch_bend_change(x, 1));
        expect_panic(chk, &format!("control_change_14_bit({},1,1)", x), true, || tu::control_change_14_bit(x, 1, 1));
        expect_panic(chk, &format!("nrpn({},1,1)", x), true, || tu::nrpn(x, 1, 1));
        expect_panic(chk, &format!("nrpn_14_bit({},1,1)", x), true, || tu::nrpn_14_bit(x, 1, 1));
        expect_panic(chk, &format!("rpn({},1,1)", x), true, || tu::rpn(x, 1, 1));
        expect_panic(chk, &format!("rpn_14_bit({},1,1)", x), true, || tu::rpn_14_bit(x, 1, 1));
        n += 12;
    }
    for &x in bad8.iter() {
        expect_panic(chk, &format!("note_on(1,{},1)", x), true, || tu::note_on(1, x, 1));
        expect_panic(chk, &format!("note_on(1,1,{})", x), true, || tu::note_on(1, 1, x));
        expect_panic(chk, &format!("note_off(1,{},1)", x), true, || tu::note_off(1, x, 1));
        expect_panic(chk, &format!("note_off(1,1,{})", x), true, || tu::note_off(1, 1, x));
        expect_panic(chk, &format!("control_change(1,{},1)", x), true, || tu::control_change(1, x, 1));
        expect_panic(chk, &format!("control_change(1,1,{})", x), true, || tu::control_change(1, 1, x));
        expect_panic(chk, &format!("polyphonic_key_pressure(1,{},1)", x), true, || tu::polyphonic_key_pressure(1, x, 1));
        expect_panic(chk, &format!("polyphonic_key_pressure(1,1,{})", x), true, || tu::polyphonic_key_pressure(1, 1, x));
        expect_panic(chk, &format!("program_change(1,{})", x), true, || tu::program_change(1, x));
        expect_panic(chk, &format!("channel_pressure(1,{})", x), true, || tu::channel_pressure(1, x));
        expect_panic(chk, &format!("song_select({})", x), true, || tu::song_select(x));
        expect_panic(chk, &format!("control_change_14_bit(1,{},1)", x), true, || tu::control_change_14_bit(1, x, 1));
        expect_panic(chk, &format!("nrpn(1,1,{})", x), true, || tu::nrpn(1, 1, x));
        expect_panic(chk, &format!("rpn(1,1,{})", x), true, || tu::rpn(1, 1, x));
        n += 14;
    }
    for &x in bad16.iter() {
        expect_panic(chk, &format!("pitch_bend_change(1,{})", x), true, || tu::pitch_bend_change(1, x));
        expect_panic(chk, &format!("song_position_pointer({})", x), true, || tu::song_position_pointer(x));
        expect_panic(chk, &format!("control_change_14_bit(1,1,{})", x), true, || tu::control_change_14_bit(1, 1, x));
        expect_panic(chk, &format!("nrpn(1,{},1)", x), true, || tu::nrpn(1, x, 1));
        expect_panic(chk, &format!("nrpn_14_bit(1,{},1)", x), true, || tu::nrpn_14_bit(1, x, 1));
        expect_panic(chk, &format!("nrpn_14_bit(1,1,{})", x), true, || tu::nrpn_14_bit(1, 1, x));
        expect_panic(chk, &format!("rpn(1,{},1)", x), true, || tu::rpn(1, x, 1));
        expect_panic(chk, &format!("rpn_14_bit(1,{},1)", x), true, || tu::rpn_14_bit(1, x, 1));
        expect_panic(chk, &format!("rpn_14_bit(1,1,{})", x), true, || tu::rpn_14_bit(1, 1, x));
        n += 9;
    }
    // MSB controller numbers 32..127 are in range for ControllerNumber but rejected by the 14-bit message
    for x in 0..128u8 {
        expect_panic(chk, &format!("control_change_14_bit(1,{},1)", x), x >= 32, || tu::control_change_14_bit(1, x, 1));
        n += 1;
    }
    // compound shorthands equal their constructors on the boundary sets
    let nums: [u16; 8] = [0, 1, 127, 128, 129, 8192, 16382, 16383];
    let r = catch(|| {
        for c in 0..16u8 {
            for &nn in nums.iter() {
                for v in 0..128u8 {
                    if tu::nrpn(c, nn, v) != ParameterNumberMessage::non_registered_7_bit(ch(c), u14(nn), u7(v))
                        || tu::rpn(c, nn, v) != ParameterNumberMessage::registered_7_bit(ch(c), u14(nn), u7(v)) {
                        vio!(chk, "C06", "shorthand-equals-factory", "nrpn/rpn", format!("shorthand|nrpn({},{},{})", c, nn, v), "nrpn/rpn({},{},{}) differs from the constructor", c, nn, v);
                    }
                }
                for &v in nums.iter() {
                    if tu::nrpn_14_bit(c, nn, v) != ParameterNumberMessage::non_registered_14_bit(ch(c), u14(nn), u14(v))
                        || tu::rpn_14_bit(c, nn, v) != ParameterNumberMessage::registered_14_bit(ch(c), u14(nn), u14(v)) {
                        vio!(chk, "C06", "shorthand-equals-factory", "nrpn_14_bit/rpn_14_bit", format!("shorthand|nrpn_14_bit({},{},{})", c, nn, v), "nrpn_14_bit/rpn_14_bit({},{},{}) differs from the constructor", c, nn, v);
                    }
                }
            }
            for m in 0..32u8 {
                for &v in nums.iter() {
                    if tu::control_change_14_bit(c, m, v) != ControlChange14BitMessage::new(ch(c), cn(m), u14(v)) {
                        vio!(chk, "C06", "shorthand-equals-factory", "control_change_14_bit", format!("shorthand|control_change_14_bit({},{},{})", c, m, v), "control_change_14_bit({},{},{}) differs", c, m, v);
                    }
                }
            }
        }
    });
    if let Err(p) = r {
        vio!(chk, "C06", "shorthand-panics-in-range", "compound", "shorthand|compound".to_string(), "a compound shorthand panicked on in-range arguments: {}", p);
    }
    n += 16 * (8 * (128 * 2 + 8 * 2) + 32 * 8);
    chk.add_eval(n);
}

/// Child side of the unwinding probe (see `unwind_probe`): call a generic constructor with a type
/// of the wrong category from a destructor that runs WHILE the thread is unwinding from another
/// panic. The constructor must panic there as well (which aborts the process); if it returns, say so.
pub fn unwind_probe_child(which: &str) -> ! {
    struct Probe(String);
    impl Drop for Probe {
        fn drop(&mut self) {
            let t = ShortMessageType::NoteOn;
            let rt = ShortMessageType::TimingClock;
            match self.0.as_str() {
                "channel_message" => {
                    let m = RawShortMessage::channel_message(rt, ch(5), u7(1), u7(2));
                    println!("SURVIVED channel_message(TimingClock) -> {:?}", m);
                }
                "system_common_message" => {
                    let m = RawShortMessage::system_common_message(t, u7(1), u7(2));
                    println!("SURVIVED system_common_message(NoteOn) -> {:?}", m);
                }
                _ => {
                    let m = StructuredShortMessage::system_real_time_message(ShortMessageType::SongSelect);
                    println!("SURVIVED system_real_time_message(SongSelect) -> {:?}", m);
                }
            }
        }
    }
    let _p = Probe(which.to_string());
    panic!("harness: start unwinding");
}

/// "The generic constructors panic exactly when the given type is not of that category" - also when
/// the call is made while the thread is already unwinding (a `std::thread::panicking()` guard in the
/// check would make it vanish exactly there). The second panic aborts the process, so this is run in
/// a child process: the child must die without printing SURVIVED.
fn unwind_probe(chk: &Check) {
    let exe = match std::env::current_exe() {
        Ok(e) => e,
        Err(_) => return,
    };
    for which in ["channel_message", "system_common_message", "system_real_time_message"] {
        let out = std::process::Command::new(&exe).arg("unwind-probe").arg(which).stderr(std::process::Stdio::null()).output();
        chk.add_eval(1);
        if let Ok(o) = out {
            let text = String::from_utf8_lossy(&o.stdout).to_string();
            if text.contains("SURVIVED") {
                vio!(chk, "C06", "generic-panics-iff-wrong-category", format!("{}/while-unwinding", which), format!("unwind|{}", which),
                    "called from a destructor during unwinding, the wrong-category call did not panic: {}", text.trim());
            }
        }
    }
}

pub fn run_c06(chk: &Check) {
    chk.rule("every argument tuple of the 19 specific constructors, all 23 types x full 16x128x128 (or 128x128) data grid for the three generic constructors, for {Raw, Structured, Foreign3, ForeignStrict (a third-party type that overrides from_bytes to refuse the undefined status bytes), ForeignRefusing (its from_bytes refuses everything)}; every in-range argument tuple of the test_util shorthands against the factory call, every argument position through out-of-range values. non-trivial = distinct (implementation, constructor, argument tuple) calls that must produce at least one non-zero data byte, counted at the call site");
    c06_factory::<RawShortMessage>(chk);
    c06_factory::<StructuredShortMessage>(chk);
    c06_factory::<Foreign3>(chk);
    // a third-party type whose own from_bytes is stricter than the provided one
    c06_factory::<ForeignStrict>(chk);
    // ... and one whose from_bytes refuses everything
    c06_factory::<ForeignRefusing>(chk);
    c06_test_util(chk);
    unwind_probe(chk);
    chk.add_nontrivial(C06_NONZERO.load(Ordering::Relaxed));
    chk.sample(json!({"call": "Structured::pitch_bend_change(ch 7, 8193)", "expected_bytes": [0xE7, 1, 64]}));
    chk.sample(json!({"call": "Raw::system_common_message(SystemExclusiveStart, 0, 0)", "expected": "panic (wrong category)"}));
    chk.sample(json!({"call": "test_util::note_on(16, 1, 1)", "expected": "panic"}));
}
