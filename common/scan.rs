//! Shared infrastructure for the scanner explorations: a uniform view of the three real scanners,
//! canonical output tuples, and `PlainSys` — the product of a clock-free real scanner with a
//! reference model, explored by `xs`.
#![allow(dead_code)]
use crate::midi::*;
use core::fmt::Debug;
use core::hash::Hash;
use helgoboss_midi::*;
use std::sync::atomic::{AtomicBool, Ordering};
use xs::{h64, Step, System, Violation};

/// Canonical form of a reported message: all fields as plain integers.
/// CC14: [channel, msb controller, lsb controller, value, 0, 0]
/// PNM : [channel, number, value, registered, is_14_bit, data type (0 entry, 1 inc, 2 dec)]
pub type Tup = [u32; 6];

pub fn tup_cc14(m: &ControlChange14BitMessage) -> Tup {
    [
        m.channel().get() as u32,
        m.msb_controller_number().get() as u32,
        m.lsb_controller_number().get() as u32,
        m.value().get() as u32,
        0,
        0,
    ]
}

pub fn tup_pnm(m: &ParameterNumberMessage) -> Tup {
    [
        m.channel().get() as u32,
        m.number().get() as u32,
        m.value().get() as u32,
        m.is_registered() as u32,
        m.is_14_bit() as u32,
        match m.data_type() {
            DataType::DataEntry => 0,
            DataType::DataIncrement => 1,
            DataType::DataDecrement => 2,
        },
    ]
}

pub fn pnm_str(t: &Tup) -> String {
    format!(
        "{}{}(ch {}, number {}, value {})",
        if t[3] == 1 { "RPN" } else { "NRPN" },
        match (t[4], t[5]) {
            (1, 0) => "-14bit",
            (0, 0) => "-7bit",
            (_, 1) => "-increment",
            (_, 2) => "-decrement",
            _ => "-INCONSISTENT",
        },
        t[0],
        t[1],
        t[2]
    )
}

/// Heap allocations observed inside real scanner calls (every feed/poll/reset made through the
/// `Scanner` view runs inside an allocation-counting region; C18 reads this).
pub static API_ALLOCS: std::sync::atomic::AtomicU64 = std::sync::atomic::AtomicU64::new(0);
pub static API_CALLS: std::sync::atomic::AtomicU64 = std::sync::atomic::AtomicU64::new(0);

thread_local! {
    /// same count, per thread: lets a system attribute an allocation to the transition it is executing
    pub static TL_API_ALLOCS: std::cell::Cell<u64> = const { std::cell::Cell::new(0) };
}

#[inline]
pub fn monitored<R>(f: impl FnOnce() -> R) -> R {
    let (r, n) = xs::alloc::region(f);
    if n > 0 {
        API_ALLOCS.fetch_add(n, Ordering::Relaxed);
        TL_API_ALLOCS.with(|c| c.set(c.get() + n));
    }
    r
}

pub fn tl_api_allocs() -> u64 {
    TL_API_ALLOCS.with(|c| c.get())
}

/// Uniform view of the three real scanners.
pub trait Scanner: Copy + PartialEq + Debug + Send + Sync + 'static {
    const NAME: &'static str;
    /// what feed returns, canonicalised: up to two messages
    fn feed_msg<M: ShortMessage>(&mut self, m: &M) -> [Option<Tup>; 2];
    fn reset_all(&mut self);
    /// does the crate's predicate say this controller number contributes?
    fn predicate(cn: ControllerNumber) -> bool;
    /// the statement's own set of contributing controller numbers
    fn contributes(n: u8) -> bool;
    const POLLS: bool = false;
    /// a new scanner (the timeout only matters for the polling scanner)
    fn make(timeout_ms: u64) -> Self;
    /// a new scanner with a timeout given in nanoseconds
    fn make_ns(timeout_ns: u64) -> Self {
        Self::make(timeout_ns / 1_000_000)
    }
    fn poll_ch(&mut self, _ch: u8) -> Option<Tup> {
        None
    }
}

/// Set the mock clock (no-op in configurations without the polling scanner).
/// mock clock in ticks of `_tick_ns` nanoseconds
pub fn set_clock_ticks(_now: u64, _tick_ns: u64) {
    #[cfg(feature = "polling")]
    helgoboss_midi::verif_hooks::set_now_ticks(_now, _tick_ns);
}

pub fn set_clock(_now: u64) {
    #[cfg(feature = "polling")]
    helgoboss_midi::verif_hooks::set_now_millis(_now);
}

/// Whether ages adjacent to multiples of 2^16 ms are kept distinct as well (thorough tier).
pub static WRAP16: AtomicBool = AtomicBool::new(false);

/// Canonical age used in state identities: exact below `cap`; above it all ages are merged EXCEPT
/// those adjacent to a multiple of 2^32 ms (and, in the thorough tier, of 2^16 ms) or of 1000 ms:
/// elapsed-time arithmetic truncated to 32 (16) bits wraps there, and sub-second accessors drop whole
/// seconds, so such ages can behave differently from other old ages. Adjacent = 0, 1, 2 ms after or
/// 1, 2 ms before the multiple.
pub fn canon_age(age: u64, cap: u64) -> u64 {
    if age < cap {
        return age;
    }
    fn near(r: u64, m: u64) -> u64 {
        if r < 3 {
            1 + r
        } else if r >= m - 2 {
            3 + (m - r)
        } else {
            0
        }
    }
    let c16 = if WRAP16.load(Ordering::Relaxed) && age >= (1 << 16) - 2 { near(age & 0xFFFF, 1 << 16) } else { 0 };
    let c32 = if age >= (1u64 << 32) - 2 { near(age & 0xFFFF_FFFF, 1 << 32) } else { 0 };
    // whole seconds: `subsec_*` accessors of Duration drop them, so an age of 1000 or 1001 ms can
    // look like 0 or 1 ms
    let c1000 = if age >= 998 { near(age % 1000, 1000) } else { 0 };
    cap + c16 * 64 + c32 * 8 + c1000
}

/// 128-bit fingerprint of a value's derived `Debug` rendering, with every mock instant
/// `Instant(t)` rewritten to its age `min(now - t, cap)`.
pub fn debug_fp<T: Debug>(x: &T, now: u64, cap: u64) -> u128 {
    use std::fmt::Write as _;
    thread_local! {
        static BUF: std::cell::RefCell<(String, Vec<u8>)> = std::cell::RefCell::new((String::new(), Vec::new()));
    }
    BUF.with(|b| {
        let mut b = b.borrow_mut();
        let (s, out) = &mut *b;
        s.clear();
        out.clear();
        write!(s, "{:?}", x).unwrap();
        let mut rest: &str = s.as_str();
        let pat = "Instant(";
        while let Some(p) = rest.find(pat) {
            out.extend_from_slice(rest[..p].as_bytes());
            let after = &rest.as_bytes()[p + pat.len()..];
            let mut j = 0;
            let mut t: u64 = 0;
            while j < after.len() && after[j].is_ascii_digit() {
                t = t * 10 + (after[j] - b'0') as u64;
                j += 1;
            }
            let age = canon_age(now.saturating_sub(t), cap);
            out.extend_from_slice(b"Age(");
            let mut digits = [0u8; 20];
            let mut k = 20;
            let mut a = age;
            loop {
                k -= 1;
                digits[k] = b'0' + (a % 10) as u8;
                a /= 10;
                if a == 0 {
                    break;
                }
            }
            out.extend_from_slice(&digits[k..]);
            rest = &rest[p + pat.len() + j..];
        }
        out.extend_from_slice(rest.as_bytes());
        xs::fp128(out)
    })
}

impl Scanner for ControlChange14BitMessageScanner {
    const NAME: &'static str = "ControlChange14BitMessageScanner";
    fn feed_msg<M: ShortMessage>(&mut self, m: &M) -> [Option<Tup>; 2] {
        [monitored(|| self.feed(m)).map(|x| tup_cc14(&x)), None]
    }
    fn reset_all(&mut self) {
        monitored(|| self.reset())
    }
    fn predicate(cn: ControllerNumber) -> bool {
        cn.can_be_part_of_14_bit_control_change_message()
    }
    fn contributes(n: u8) -> bool {
        n < 64
    }
    fn make(_t: u64) -> Self {
        Self::new()
    }
}

impl Scanner for ParameterNumberMessageScanner {
    const NAME: &'static str = "ParameterNumberMessageScanner";
    fn make(_t: u64) -> Self {
        Self::new()
    }
    fn feed_msg<M: ShortMessage>(&mut self, m: &M) -> [Option<Tup>; 2] {
        [monitored(|| self.feed(m)).map(|x| tup_pnm(&x)), None]
    }
    fn reset_all(&mut self) {
        monitored(|| self.reset())
    }
    fn predicate(cn: ControllerNumber) -> bool {
        cn.is_parameter_number_message_controller_number()
    }
    fn contributes(n: u8) -> bool {
        matches!(n, 6 | 38 | 96..=101)
    }
}

#[cfg(feature = "polling")]
impl Scanner for PollingParameterNumberMessageScanner {
    const NAME: &'static str = "PollingParameterNumberMessageScanner";
    const POLLS: bool = true;
    fn make(t: u64) -> Self {
        Self::new(core::time::Duration::from_millis(t))
    }
    fn make_ns(t: u64) -> Self {
        Self::new(core::time::Duration::from_nanos(t))
    }
    fn poll_ch(&mut self, c: u8) -> Option<Tup> {
        let c = ch(c);
        monitored(|| self.poll(c)).map(|m| tup_pnm(&m))
    }
    fn feed_msg<M: ShortMessage>(&mut self, m: &M) -> [Option<Tup>; 2] {
        let r = monitored(|| self.feed(m));
        [r[0].map(|x| tup_pnm(&x)), r[1].map(|x| tup_pnm(&x))]
    }
    fn reset_all(&mut self) {
        monitored(|| self.reset())
    }
    fn predicate(cn: ControllerNumber) -> bool {
        cn.is_parameter_number_message_controller_number()
    }
    fn contributes(n: u8) -> bool {
        matches!(n, 6 | 38 | 96..=101)
    }
}

/// Feed the same bytes in the three other representations to copies of `before`; all must
/// return what the raw feed returned and end `==` to `after`.
pub fn repr_divergence<S: Scanner>(before: &S, after: &S, raw_out: &[Option<Tup>; 2], s: u8, d1: u8, d2: u8) -> Option<String> {
    let mut a = *before;
    let st = raw(s, d1, d2).to_structured();
    let oa = a.feed_msg(&st);
    let mut b = *before;
    let ob = b.feed_msg(&Foreign3 { s, d1: u7(d1), d2: u7(d2) });
    let mut c = *before;
    let oc = c.feed_msg(&ForeignBytes(((s as u32) << 16) | ((d1 as u32) << 8) | d2 as u32));
    if &oa != raw_out || a != *after {
        return Some(format!("StructuredShortMessage: out {:?} vs raw {:?}, state equal: {}", oa, raw_out, a == *after));
    }
    if &ob != raw_out || b != *after {
        return Some(format!("Foreign3: out {:?} vs raw {:?}, state equal: {}", ob, raw_out, b == *after));
    }
    if &oc != raw_out || c != *after {
        return Some(format!("ForeignBytes: out {:?} vs raw {:?}, state equal: {}", oc, raw_out, c == *after));
    }
    None
}

/// "After reset() a scanner reports, for every subsequent input sequence, exactly what a new scanner
/// would report": all continuations up to `depth` feeds over `ctrls` (value = 1 + position), with an
/// optional poll after each feed, are run on copies of the reset scanner and of a new one; the
/// first difference in what they return is described. Purely behavioural (independent of `==`).
pub fn post_reset_differential<S: Scanner>(a: &S, b: &S, ch: u8, ctrls: &[u8], depth: usize, poll: bool) -> Option<String> {
    fn go<S: Scanner>(a: &S, b: &S, ch: u8, ctrls: &[u8], depth: usize, poll: bool, pos: u8, path: &mut Vec<(u8, u8)>) -> Option<String> {
        if depth == 0 {
            return None;
        }
        for &c in ctrls {
            let mut x = *a;
            let mut y = *b;
            let msg = cc(ch, c, 1 + pos);
            let ox = x.feed_msg(&msg);
            let oy = y.feed_msg(&msg);
            path.push((c, 1 + pos));
            if ox != oy {
                return Some(format!("continuation {:?}: the reset scanner returned {:?}, a new scanner {:?}", path, ox, oy));
            }
            if poll {
                let px = x.poll_ch(ch);
                let py = y.poll_ch(ch);
                if px != py {
                    return Some(format!("continuation {:?} then poll: the reset scanner returned {:?}, a new scanner {:?}", path, px, py));
                }
            }
            if let Some(d) = go(&x, &y, ch, ctrls, depth - 1, poll, pos + 1, path) {
                return Some(d);
            }
            path.pop();
        }
        None
    }
    go(a, b, ch, ctrls, depth, poll, 0, &mut Vec::new())
}

/// Which rule families a run reports (so that e.g. the C16 run never alarms about a C08 matter).
#[derive(Clone, Copy, Debug, Default)]
pub struct Report {
    pub oracle: bool,
    pub transparency: bool,
    pub reset: bool,
    pub dup: bool,
    pub repr: bool,
    /// C18: a heap allocation inside a real feed/poll/reset call made by this transition
    pub alloc: bool,
}

/// Reference model of a clock-free scanner on one channel.
pub trait PlainOracle: Sync + Send + 'static {
    type Sc: Scanner + Default;
    type M: Clone + Send + Sync + Hash + Eq + Debug + 'static;
    fn init(&self) -> Self::M;
    /// model transition for a Control Change on the explored channel: (next model, expected report)
    fn on_cc(&self, m: &Self::M, ch: u8, ctrl: u8, val: u8) -> (Self::M, Option<Tup>);
    fn class_of_ctrl(ctrl: u8) -> &'static str;
}

#[derive(Clone, PartialEq, Debug)]
pub enum PAct {
    /// Control Change on the explored channel, expanded
    Cc(u8, u8),
    /// Control Change judged by the oracle but not expanded (concretisation sweep)
    CcProbe(u8, u8),
    /// a non-contributing message, EXPANDED like any other input (index into `others`): "whatever
    /// it has been fed before" includes such traffic
    Other(u32),
    /// a message that must be transparent (index into `noncontrib`), probe only
    Transparent(u32),
    Reset,
    /// reset a copy and compare with a new scanner
    ResetProbe,
    /// many resets in one step (index into `storms`): counters used to implement a lazy reset wrap
    ResetStorm(u8),
    /// a non-contributing message on every one of the 16 channels
    TouchAll,
    /// fault injection (probe): a message whose n-th getter call panics, fed under catch_unwind
    /// (index into the abort probe list, n)
    AbortProbe(u8, u8),
    /// one CONTRIBUTING Control Change (the first of the alphabet, value 1) on each of the 15 OTHER
    /// channels: many channels hold progress at once ("which channels were touched" bookkeeping
    /// with a small fixed capacity shows at the next reset)
    ProgressAll,
    /// a short cycle of Control Changes repeated `pump_reps` times in one step, every feed judged by
    /// the oracle (index into `pump_cycles`): counters that leak or wrap after hundreds of rounds
    Pump(u16),
}

pub struct PlainSys<O: PlainOracle> {
    pub pid: &'static str,
    pub oracle: O,
    pub ch: u8,
    pub alphabet: Vec<(u8, u8)>,
    pub probes: Vec<(u8, u8)>,
    pub others: Vec<(u8, u8, u8)>,
    pub noncontrib: Vec<(u8, u8, u8)>,
    pub report: Report,
    pub with_reset: bool,
    pub deep_probes: bool,
    pub followup_values: Vec<u8>,
    /// reset storms offered as single actions: (number of resets, with traffic on another channel in between)
    pub storms: Vec<(u32, bool)>,
    pub pump_cycles: Vec<Vec<(u8, u8)>>,
    pub pump_reps: u32,
    /// number of leading `pump_cycles` additionally offered with 70000 rounds near the initial state
    pub long_pumps: usize,
    /// controller numbers for which some explored transition changed the state or reported
    pub reacted: Vec<AtomicBool>,
}

pub struct PState<O: PlainOracle> {
    pub sc: O::Sc,
    pub m: O::M,
}

impl<O: PlainOracle> Clone for PState<O> {
    fn clone(&self) -> Self {
        PState { sc: self.sc, m: self.m.clone() }
    }
}

impl<O: PlainOracle> PlainSys<O> {
    pub fn new(pid: &'static str, oracle: O, ch: u8, report: Report) -> Self {
        PlainSys {
            pid,
            oracle,
            ch,
            alphabet: Vec::new(),
            probes: Vec::new(),
            others: Vec::new(),
            noncontrib: Vec::new(),
            report,
            with_reset: true,
            deep_probes: true,
            followup_values: vec![1],
            storms: Vec::new(),
            pump_cycles: Vec::new(),
            pump_reps: 300,
            long_pumps: 0,
            reacted: (0..128).map(|_| AtomicBool::new(false)).collect(),
        }
    }

    fn vio(&self, rule: &str, cls: &str, detail: impl FnOnce() -> String) -> Violation {
        Violation::lazy(rule, format!("{}/{}/{}/{}", self.pid, <O::Sc as Scanner>::NAME, rule, cls), detail)
    }

    /// messages fed through the panicking third-party type: the first contributing Control Changes
    /// of the alphabet (one per distinct controller, up to 4) and a non-contributing note-on
    fn abort_msgs(&self) -> Vec<(u8, u8, u8)> {
        let mut v: Vec<(u8, u8, u8)> = Vec::new();
        for &(c, val) in &self.alphabet {
            if v.len() < 4 && !v.iter().any(|m| m.1 == c) {
                v.push((0xB0 | self.ch, c, val.max(1)));
            }
        }
        v.push((0x90 | self.ch, 1, 1));
        v
    }

    /// All cycles of length 1..=max_len over the given controllers (value 1).
    pub fn with_pumps(mut self, ctrls: &[u8], max_len: usize) -> Self {
        let mut level: Vec<Vec<(u8, u8)>> = vec![vec![]];
        for _ in 0..max_len {
            let mut next = Vec::new();
            for p in &level {
                for &c in ctrls {
                    let mut q = p.clone();
                    q.push((c, 1));
                    next.push(q);
                }
            }
            self.pump_cycles.extend(next.iter().cloned());
            level = next;
        }
        self
    }

    fn pump(&self, s: &PState<O>, cycle: &[(u8, u8)], reps: u32) -> Step<PState<O>> {
        let mut cur = s.clone();
        let mut v = Vec::new();
        'outer: for it in 0..reps {
            for &(c, val) in cycle {
                let r = xs::report::with_details(|| self.do_cc_depth(&cur, c, val, true, 1));
                if !r.violations.is_empty() {
                    for mut x in r.violations {
                        x.signature = format!("{}/pumped", x.signature);
                        x.detail = format!("in round {} of the pumped cycle {:?}: {}", it + 1, cycle, x.detail);
                        v.push(x);
                    }
                    break 'outer;
                }
                match r.next {
                    Some(n) => cur = n,
                    None => break 'outer,
                }
            }
        }
        Step { strict: true, next: if v.is_empty() { Some(cur) } else { None }, obs: 0, violations: v }
    }

    /// distinct controller numbers of the alphabet (continuations of the post-reset differential)
    fn diff_ctrls(&self) -> Vec<u8> {
        let mut seen = [false; 128];
        let mut v = Vec::new();
        for &(c, _) in &self.alphabet {
            if !seen[c as usize] {
                seen[c as usize] = true;
                v.push(c);
            }
        }
        v
    }
    fn diff_depth(&self) -> usize {
        if self.diff_ctrls().len() > 16 { 2 } else { 3 }
    }

    fn do_cc(&self, s: &PState<O>, ctrl: u8, val: u8, expand: bool) -> Step<PState<O>> {
        self.do_cc_depth(s, ctrl, val, expand, 0)
    }

    fn do_cc_depth(&self, s: &PState<O>, ctrl: u8, val: u8, expand: bool, depth: u8) -> Step<PState<O>> {
        let mut v = Vec::new();
        let mut sc = s.sc;
        let msg = cc(self.ch, ctrl, val);
        let out = sc.feed_msg(&msg);
        let (m2, want) = self.oracle.on_cc(&s.m, self.ch, ctrl, val);
        if out[0].is_some() || sc != s.sc {
            self.reacted[ctrl as usize].store(true, Ordering::Relaxed);
        }
        if self.report.oracle {
            let cls = O::class_of_ctrl(ctrl);
            if out[1].is_some() {
                v.push(self.vio("second-slot", cls, || format!("feed(CC ch{} #{} ={}) returned a second message {:?}", self.ch, ctrl, val, out[1])));
            }
            match (&out[0], &want) {
                (None, None) => {}
                (Some(g), None) => v.push(self.vio("unjustified-report", cls, || format!("feed(CC ch{} #{} ={}) reported {:?}; the statement justifies no report here (model {:?})", self.ch, ctrl, val, g, s.m))),
                (None, Some(w)) => v.push(self.vio("missing-report", cls, || format!("feed(CC ch{} #{} ={}) reported nothing; expected {:?} (model {:?})", self.ch, ctrl, val, w, s.m))),
                (Some(g), Some(w)) => {
                    if g != w {
                        v.push(self.vio("wrong-content", cls, || format!("feed(CC ch{} #{} ={}) reported {:?}; expected {:?} (model {:?})", self.ch, ctrl, val, g, w, s.m)));
                    }
                }
            }
        }
        if self.report.dup {
            let mut copy = s.sc;
            let out2 = copy.feed_msg(&msg);
            if out2 != out || copy != sc {
                v.push(self.vio("copy-evolves-identically", "feed", || format!("feeding CC #{} ={} to two copies of the same scanner gave {:?} / {:?}, states equal: {}", ctrl, val, out, out2, copy == sc)));
            }
        }
        if self.report.repr {
            if let Some(d) = repr_divergence(&s.sc, &sc, &out, 0xB0 | self.ch, ctrl, val) {
                v.push(self.vio("representation-matters", O::class_of_ctrl(ctrl), || format!("CC ch{} #{} ={}: {}", self.ch, ctrl, val, d)));
            }
        }
        // second-step probing: a probe (not expanded) is followed by one more judged step for every
        // contributing controller of the alphabet, so that behaviour depending on a STORED byte
        // outside the expansion domain is seen one step later
        if !expand && depth == 0 && self.deep_probes && v.is_empty() {
            let mid = PState::<O> { sc, m: m2.clone() };
            let mut seen = [false; 128];
            for &(c2, _) in &self.alphabet {
                if seen[c2 as usize] {
                    continue;
                }
                seen[c2 as usize] = true;
                for &v2 in &self.followup_values {
                    let r2 = self.do_cc_depth(&mid, c2, v2, false, 1);
                    for mut x in r2.violations {
                        x.signature = format!("{}/second-step", x.signature);
                        x.detail = format!("after the one-step probe CC#{} ={}, then CC#{} ={}: {}", ctrl, val, c2, v2, x.detail);
                        v.push(x);
                    }
                }
            }
        }
        Step { strict: false,
            next: if expand { Some(PState { sc, m: m2 }) } else { None },
            obs: match out[0] {
                Some(t) => h64(&t),
                None => 0,
            },
            violations: v,
        }
    }
}

impl<O: PlainOracle> PlainSys<O> {
    fn step_inner(&self, s: &PState<O>, a: &PAct) -> Step<PState<O>> {
        match a {
            PAct::Cc(c, v) => self.do_cc(s, *c, *v, true),
            PAct::CcProbe(c, v) => self.do_cc(s, *c, *v, false),
            PAct::Other(i) => {
                // a non-contributing message as ordinary traffic: the statement justifies no
                // report; whatever the real scanner does to its state is followed
                let (st, d1, d2) = self.others[*i as usize];
                let mut sc = s.sc;
                let out = sc.feed_msg(&raw(st, d1, d2));
                let mut v = Vec::new();
                if st & 0xF0 == 0xB0 && (out[0].is_some() || sc != s.sc) {
                    self.reacted[d1 as usize].store(true, Ordering::Relaxed);
                }
                if self.report.oracle && (out[0].is_some() || out[1].is_some()) {
                    v.push(self.vio("unjustified-report", "non-contributing-message", || format!("feed(({:#04X},{},{})) reported {:?}; the statement justifies no report for this input", st, d1, d2, out)));
                }
                if self.report.dup {
                    let mut copy = s.sc;
                    let out2 = copy.feed_msg(&raw(st, d1, d2));
                    if out2 != out || copy != sc {
                        v.push(self.vio("copy-evolves-identically", "feed-other", || format!("feeding ({:#04X},{},{}) to two copies gave different results", st, d1, d2)));
                    }
                }
                if self.report.repr {
                    if let Some(d) = repr_divergence(&s.sc, &sc, &out, st, d1, d2) {
                        v.push(self.vio("representation-matters", "non-contributing", || format!("({:#04X},{},{}): {}", st, d1, d2, d)));
                    }
                }
                Step { strict: true, next: Some(PState { sc, m: s.m.clone() }), obs: 0, violations: v }
            }
            PAct::Transparent(i) => {
                let (st, d1, d2) = self.noncontrib[*i as usize];
                let mut sc = s.sc;
                let out = sc.feed_msg(&raw(st, d1, d2));
                let mut v = Vec::new();
                if st & 0xF0 == 0xB0 && (out[0].is_some() || sc != s.sc) {
                    self.reacted[d1 as usize].store(true, Ordering::Relaxed);
                }
                if self.report.transparency {
                    let cls = if st & 0xF0 == 0xB0 { format!("CC#{}", d1) } else { format!("status{:X}", if st < 0xF0 { st & 0xF0 } else { st }) };
                    if out[0].is_some() || out[1].is_some() {
                        v.push(self.vio("non-contributing-reports", &cls, || format!("non-contributing message ({:#04X},{},{}) made the scanner report {:?}", st, d1, d2, out)));
                    }
                    if sc != s.sc {
                        v.push(self.vio("non-contributing-changes-state", &cls, || format!("non-contributing message ({:#04X},{},{}) left the scanner in a different state: {:?} -> {:?}", st, d1, d2, s.sc, sc)));
                    }
                }
                if self.report.repr {
                    if let Some(d) = repr_divergence(&s.sc, &sc, &out, st, d1, d2) {
                        v.push(self.vio("representation-matters", "non-contributing", || format!("({:#04X},{},{}): {}", st, d1, d2, d)));
                    }
                }
                Step { strict: false, next: None, obs: 0, violations: v }
            }
            PAct::Reset => {
                let mut sc = s.sc;
                sc.reset_all();
                Step { strict: true,
                    next: Some(PState { sc, m: self.oracle.init() }),
                    obs: 0,
                    violations: Vec::new(),
                }
            }
            PAct::ResetStorm(i) => {
                let (n, traffic) = self.storms[*i as usize];
                let mut sc = s.sc;
                let other = raw(0x90 | ((self.ch + 1) % 16), 1, 1);
                let mut v = Vec::new();
                for _ in 0..n {
                    if traffic {
                        let o = sc.feed_msg(&other);
                        if o[0].is_some() && v.is_empty() && self.report.oracle {
                            v.push(self.vio("unjustified-report", "reset-storm", || format!("a note-on on another channel reported {:?} during a reset storm", o)));
                        }
                    }
                    sc.reset_all();
                }
                if self.report.reset {
                    let fresh = <O::Sc as Default>::default();
                    if let Some(d) = post_reset_differential(&sc, &fresh, self.ch, &self.diff_ctrls(), self.diff_depth(), false) {
                        v.push(self.vio("reset-behaves-like-new", "reset-storm", || format!("after {} resets{}: {}", n, if traffic { " (with a note-on on another channel before each)" } else { "" }, d)));
                    }
                }
                Step { strict: true, next: Some(PState { sc, m: self.oracle.init() }), obs: 0, violations: v }
            }
            PAct::TouchAll => {
                let mut sc = s.sc;
                let mut v = Vec::new();
                for c in 0..16u8 {
                    let extra = if <O::Sc as Scanner>::contributes(70) { 120 } else { 70 };
                    for m in [raw(0x90 | c, 1, 1), raw(0xB0 | c, extra, 1)] {
                        let o = sc.feed_msg(&m);
                        if o[0].is_some() && v.is_empty() && (self.report.oracle || self.report.transparency) {
                            v.push(self.vio("unjustified-report", "touch-all", || format!("a non-contributing message on channel {} reported {:?}", c, o)));
                        }
                    }
                }
                Step { strict: true, next: Some(PState { sc, m: s.m.clone() }), obs: 0, violations: v }
            }
            PAct::AbortProbe(i, n) => {
                let (st, d1, d2) = self.abort_msgs()[*i as usize];
                let mut v = Vec::new();
                let mut sc = s.sc;
                let msg = ForeignPanicky { s: st, d1: crate::midi::u7(d1), d2: crate::midi::u7(d2), calls: core::cell::Cell::new(0), panic_at: *n as u32 };
                let r = xs::catch(|| sc.feed_msg(&msg));
                if r.is_err() {
                    // aborted: the scanner must be where it was, or where the complete feed leads
                    let mut full = s.sc;
                    let _ = full.feed_msg(&raw(st, d1, d2));
                    if sc != s.sc && sc != full {
                        v.push(self.vio("aborted-feed-leaves-inconsistent-state", "getter-panics", || format!("feeding ({:#04X},{},{}) through a message type whose getter call #{} panics (caught by the caller) left the scanner in a state that is neither the prior one nor the one after the complete feed: {:?}", st, d1, d2, n, sc)));
                    } else if self.report.oracle || self.report.reset {
                        // and it must go on behaving like that state
                        let reference = if sc == s.sc { s.sc } else { full };
                        if let Some(d) = post_reset_differential(&sc, &reference, self.ch, &self.diff_ctrls(), 2, false) {
                            v.push(self.vio("aborted-feed-leaves-inconsistent-state", "getter-panics-behaviour", || format!("after an aborted feed of ({:#04X},{},{}) (getter call #{} panicked): {}", st, d1, d2, n, d)));
                        }
                    }
                }
                Step { strict: false, next: None, obs: r.is_err() as u64, violations: v }
            }
            PAct::ProgressAll => {
                let mut sc = s.sc;
                let ctrl = self.alphabet[0].0;
                for c in 0..16u8 {
                    if c != self.ch {
                        let _ = sc.feed_msg(&cc(c, ctrl, 1));
                    }
                }
                Step { strict: true, next: Some(PState { sc, m: s.m.clone() }), obs: 0, violations: Vec::new() }
            }
            PAct::Pump(i) => {
                let n = self.pump_cycles.len();
                if (*i as usize) < n {
                    self.pump(s, &self.pump_cycles[*i as usize], self.pump_reps)
                } else {
                    self.pump(s, &self.pump_cycles[*i as usize - n], 70_000)
                }
            }
            PAct::ResetProbe => {
                let mut v = Vec::new();
                if self.report.reset {
                    let mut sc = s.sc;
                    sc.reset_all();
                    let fresh = <O::Sc as Default>::default();
                    if sc != fresh {
                        v.push(self.vio("reset-equals-new", "reset", || format!("after reset() the scanner is {:?}, a new one is {:?}", sc, fresh)));
                    }
                    let mut again = s.sc;
                    again.reset_all();
                    if again != sc {
                        v.push(self.vio("copy-evolves-identically", "reset", || "resetting two copies gave different states".to_string()));
                    }
                    if let Some(d) = post_reset_differential(&sc, &fresh, self.ch, &self.diff_ctrls(), self.diff_depth(), false) {
                        v.push(self.vio("reset-behaves-like-new", "reset", || d));
                    }
                }
                Step { strict: false, next: None, obs: 0, violations: v }
            }
        }
    }
}

pub const STORM_DEPTH: u32 = 5;

impl<O: PlainOracle> System for PlainSys<O> {
    type State = PState<O>;
    type Action = PAct;
    type Key = O::M;

    fn pid(&self) -> String {
        self.pid.to_string()
    }
    fn name(&self) -> String {
        format!("{}x{}[ch={},|alphabet|={},probes={},transparent={}]", <O::Sc as Scanner>::NAME, "refmodel", self.ch, self.alphabet.len(), self.probes.len(), self.noncontrib.len())
    }
    fn init(&self) -> PState<O> {
        PState {
            sc: <O::Sc as Default>::default(),
            m: self.oracle.init(),
        }
    }
    fn actions(&self, s: &PState<O>, out: &mut Vec<PAct>) {
        self.actions_at(s, u32::MAX, out)
    }
    /// reset storms (65536 resets each) are offered only within STORM_DEPTH steps of the initial
    /// state: on a broken implementation the state space can explode, and a storm from every one
    /// of hundreds of thousands of states would take hours
    fn actions_at(&self, _s: &PState<O>, depth: u32, out: &mut Vec<PAct>) {
        for &(c, v) in &self.alphabet {
            out.push(PAct::Cc(c, v));
        }
        if self.with_reset {
            out.push(PAct::Reset);
            out.push(PAct::ResetProbe);
            if depth <= STORM_DEPTH {
                for i in 0..self.storms.len() {
                    out.push(PAct::ResetStorm(i as u8));
                }
            }
        }
        out.push(PAct::TouchAll);
        if self.report.oracle {
            for i in 0..self.abort_msgs().len() {
                for n in 0..10u8 {
                    out.push(PAct::AbortProbe(i as u8, n));
                }
            }
        }
        if depth <= 1 && self.with_reset && self.report.reset {
            out.push(PAct::ProgressAll);
        }
        if depth <= STORM_DEPTH {
            for i in 0..self.pump_cycles.len() {
                out.push(PAct::Pump(i as u16));
            }
        }
        if depth <= 2 {
            for i in 0..self.long_pumps.min(self.pump_cycles.len()) {
                out.push(PAct::Pump((self.pump_cycles.len() + i) as u16));
            }
        }
        for i in 0..self.others.len() {
            out.push(PAct::Other(i as u32));
        }
        for &(c, v) in &self.probes {
            out.push(PAct::CcProbe(c, v));
        }
        for i in 0..self.noncontrib.len() {
            out.push(PAct::Transparent(i as u32));
        }
    }
    fn step(&self, s: &PState<O>, a: &PAct) -> Step<PState<O>> {
        let before = tl_api_allocs();
        let mut r = self.step_inner(s, a);
        let n = tl_api_allocs() - before;
        if self.report.alloc && n > 0 {
            r.violations.push(self.vio("no-heap-allocation", "scanner-call", || format!("{} heap allocation(s) inside the real scanner call(s) of action {}", n, self.render(a))));
        }
        r
    }
    fn key(&self, s: &PState<O>) -> O::M {
        s.m.clone()
    }
    fn same(&self, a: &PState<O>, b: &PState<O>) -> bool {
        a.sc == b.sc
    }
    fn fine_key(&self, s: &PState<O>) -> Option<u128> {
        Some(debug_fp(&s.sc, 0, 0))
    }
    fn n_classes(&self) -> usize {
        11
    }
    fn class_name(&self, i: usize) -> String {
        ["feed-contributing-cc", "feed-cc-probe(concretisation)", "feed-must-be-transparent", "reset", "reset-probe", "feed-non-contributing(expanded)", "reset-storm", "touch-all-16-channels", "pumped-cycle", "progress-on-15-other-channels", "feed-aborted-by-a-panicking-getter(probe)"][i].to_string()
    }
    fn class_of(&self, a: &PAct) -> usize {
        match a {
            PAct::Cc(..) => 0,
            PAct::CcProbe(..) => 1,
            PAct::Transparent(..) => 2,
            PAct::Reset => 3,
            PAct::ResetProbe => 4,
            PAct::Other(..) => 5,
            PAct::ResetStorm(..) => 6,
            PAct::TouchAll => 7,
            PAct::Pump(..) => 8,
            PAct::ProgressAll => 9,
            PAct::AbortProbe(..) => 10,
        }
    }
    fn render(&self, a: &PAct) -> String {
        match a {
            PAct::Cc(c, v) => format!("cc:{}:{}:{}", self.ch, c, v),
            PAct::CcProbe(c, v) => format!("ccprobe:{}:{}:{}", self.ch, c, v),
            PAct::Other(i) => {
                let (s, a, b) = self.others[*i as usize];
                format!("raw:{}:{}:{}", s, a, b)
            }
            PAct::Transparent(i) => {
                let (s, a, b) = self.noncontrib[*i as usize];
                format!("transparent:{}:{}:{}", s, a, b)
            }
            PAct::Reset => "reset".to_string(),
            PAct::ResetProbe => "resetprobe".to_string(),
            PAct::ResetStorm(i) => format!("resetstorm:{}:{}", self.storms[*i as usize].0, self.storms[*i as usize].1),
            PAct::TouchAll => "touchall".to_string(),
            PAct::ProgressAll => "progressall".to_string(),
            PAct::AbortProbe(i, n) => { let (st, d1, d2) = self.abort_msgs()[*i as usize]; format!("abortprobe:{}:{}:{}:{}", st, d1, d2, n) }
            PAct::Pump(i) => {
                let n = self.pump_cycles.len();
                let (reps, c) = if (*i as usize) < n { (self.pump_reps, &self.pump_cycles[*i as usize]) } else { (70_000, &self.pump_cycles[*i as usize - n]) };
                format!("pump:{}x{:?}", reps, c).replace(' ', "")
            }
        }
    }
    fn rust_preamble(&self) -> String {
        format!("let mut scanner = helgoboss_midi::{}::new();", <O::Sc as Scanner>::NAME)
    }
    fn rust_line(&self, a: &PAct) -> String {
        match a {
            PAct::Cc(c, v) | PAct::CcProbe(c, v) => format!("println!(\"{{:?}}\", scanner.feed(&helgoboss_midi::test_util::control_change({}, {}, {})));", self.ch, c, v),
            PAct::Transparent(i) => {
                let (s, a, b) = self.noncontrib[*i as usize];
                format!("println!(\"{{:?}}\", scanner.feed(&helgoboss_midi::test_util::short({}, {}, {})));", s, a, b)
            }
            PAct::Other(i) => {
                let (s, a, b) = self.others[*i as usize];
                format!("println!(\"{{:?}}\", scanner.feed(&helgoboss_midi::test_util::short({}, {}, {})));", s, a, b)
            }
            PAct::Reset | PAct::ResetProbe => "scanner.reset();".to_string(),
            PAct::ResetStorm(i) => {
                let (n, traffic) = self.storms[*i as usize];
                if traffic {
                    format!("for _ in 0..{} {{ scanner.feed(&helgoboss_midi::test_util::note_on({}, 1, 1)); scanner.reset(); }}", n, (self.ch + 1) % 16)
                } else {
                    format!("for _ in 0..{} {{ scanner.reset(); }}", n)
                }
            }
            PAct::TouchAll => "for c in 0..16 { scanner.feed(&helgoboss_midi::test_util::note_on(c, 1, 1)); }".to_string(),
            PAct::ProgressAll => format!("for c in 0..16 {{ if c != {} {{ scanner.feed(&helgoboss_midi::test_util::control_change(c, {}, 1)); }} }}", self.ch, self.alphabet[0].0),
            PAct::AbortProbe(..) => format!("// {} (a ShortMessage implementation whose n-th getter call panics, fed inside catch_unwind)", self.render(a)),
            PAct::Pump(i) => {
                let n = self.pump_cycles.len();
                let (reps, c) = if (*i as usize) < n { (self.pump_reps, &self.pump_cycles[*i as usize]) } else { (70_000, &self.pump_cycles[*i as usize - n]) };
                format!("for _ in 0..{} {{ for (n, v) in {:?} {{ scanner.feed(&helgoboss_midi::test_util::control_change({}, n, v)); }} }}", reps, c, self.ch)
            }
        }
    }
}

/// Non-contributing message sets.
/// `small`: a handful per class (used inside every fixpoint); `full`: the C16 set.
pub fn noncontrib_small<S: Scanner>(ch: u8) -> Vec<(u8, u8, u8)> {
    let mut v = vec![
        (0x90 | ch, 6, 38),
        (0x80 | ch, 100, 101),
        (0xA0 | ch, 98, 99),
        (0xC0 | ch, 6, 0),
        (0xD0 | ch, 38, 0),
        (0xE0 | ch, 96, 97),
        (0xF0, 0, 0),
        (0xF1, 6, 38),
        (0xF2, 6, 38),
        (0xF8, 0, 0),
        (0xFF, 0, 0),
    ];
    for n in 0..128u8 {
        if !S::contributes(n) {
            v.push((0xB0 | ch, n, 1));
        }
    }
    v
}

pub fn noncontrib_full<S: Scanner>(ch: u8, full_grid: bool) -> Vec<(u8, u8, u8)> {
    let d: Vec<u8> = if full_grid { (0..128).collect() } else { vec![0, 1, 6, 38, 63, 64, 96, 97, 98, 99, 100, 101, 127] };
    let mut v = Vec::new();
    // all 112 non-Control-Change status bytes: 8n-An, Cn-En on all channels, F0-FF
    for st in 0x80..=0xFFu8 {
        if st & 0xF0 == 0xB0 {
            continue;
        }
        for &a in &d {
            for &b in &d {
                v.push((st, a, b));
            }
        }
    }
    // every Control Change with a non-contributing controller number x all values, on the
    // explored channel (other channels are C15's matter, but they are cheap: add two)
    for n in 0..128u8 {
        if !S::contributes(n) {
            for val in 0..128u8 {
                v.push((0xB0 | ch, n, val));
            }
        }
    }
    v
}
