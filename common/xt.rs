//! Cross-target transcripts. Dependency-free (core + the crate under test), so that the same code
//! runs natively inside the std harness and under Miri for foreign targets (i686: 32-bit usize;
//! s390x: big-endian). A transcript is a hash over every RESULT (taken value by value, never from
//! memory representations) of a fixed, exhaustive family of small histories. The native transcript
//! comes from the build whose behaviour the explorations of the respective check judge against
//! their oracles; a foreign target must produce the identical transcript.
#![allow(dead_code)]
use core::convert::TryFrom;
use helgoboss_midi::*;

pub fn mix(h: u64, x: u64) -> u64 {
    (h ^ x).wrapping_mul(0x100000001b3).rotate_left(23) ^ 0x9E3779B97F4A7C15
}

fn u7(v: u8) -> U7 {
    U7::try_from(v).unwrap()
}
fn u14(v: u16) -> U14 {
    U14::try_from(v).unwrap()
}
fn ch(v: u8) -> Channel {
    Channel::try_from(v).unwrap()
}
fn cn(v: u8) -> ControllerNumber {
    ControllerNumber::try_from(v).unwrap()
}
fn cc(c: u8, n: u8, v: u8) -> RawShortMessage {
    RawShortMessage::control_change(ch(c), cn(n), u7(v))
}

fn code_bytes<M: ShortMessage>(m: &M) -> u64 {
    let b = m.to_bytes();
    1 + ((b.0 as u64) << 16 | (b.1.get() as u64) << 8 | b.2.get() as u64)
}
fn code_cc14(m: &Option<ControlChange14BitMessage>) -> u64 {
    match m {
        None => 0,
        Some(m) => 1 + ((m.channel().get() as u64) << 32 | (m.msb_controller_number().get() as u64) << 24 | (m.lsb_controller_number().get() as u64) << 16 | m.value().get() as u64),
    }
}
fn code_pnm(m: &Option<ParameterNumberMessage>) -> u64 {
    match m {
        None => 0,
        Some(m) => {
            let dt = match m.data_type() {
                DataType::DataEntry => 0u64,
                DataType::DataIncrement => 1,
                DataType::DataDecrement => 2,
            };
            1 + ((m.channel().get() as u64) << 40 | (m.number().get() as u64) << 24 | (m.value().get() as u64) << 8 | (m.is_registered() as u64) << 3 | (m.is_14_bit() as u64) << 2 | dt)
        }
    }
}

const B14: [u16; 10] = [0, 1, 127, 128, 129, 8191, 8192, 16256, 16382, 16383];

/// C07: encoder over a boundary grid, each encoding fed to a scanner that already holds another MSB.
pub fn t_c07() -> (u64, u64) {
    let (mut h, mut n) = (0xcbf29ce484222325u64, 0u64);
    for c in [0u8, 7, 15] {
        for k in [0u8, 1, 6, 31] {
            for &v in &B14 {
                let m = ControlChange14BitMessage::new(ch(c), cn(k), u14(v));
                let a: [RawShortMessage; 2] = m.to_short_messages();
                let b: [StructuredShortMessage; 2] = m.into();
                let mut sc = ControlChange14BitMessageScanner::new();
                let _ = sc.feed(&cc(c, (k + 1) % 32, 99));
                for i in 0..2 {
                    h = mix(h, code_bytes(&a[i]));
                    h = mix(h, code_bytes(&b[i]));
                    h = mix(h, code_cc14(&sc.feed(&a[i])));
                    n += 3;
                }
            }
        }
    }
    (h, n)
}

/// C08 / C11: ALL action sequences up to `depth` over ten messages and reset.
pub fn t_c08(depth: usize) -> (u64, u64) {
    fn dfs(sc: &ControlChange14BitMessageScanner, msgs: &[RawShortMessage; 10], depth: usize, h: &mut u64, n: &mut u64) {
        if depth == 0 {
            return;
        }
        for a in 0..11 {
            let mut s = *sc;
            let code = if a < 10 { code_cc14(&s.feed(&msgs[a])) } else { s.reset(); 0 };
            *h = mix(*h, (a as u64) << 56 ^ code);
            *n += 1;
            dfs(&s, msgs, depth - 1, h, n);
        }
    }
    let c = 11;
    let msgs: [RawShortMessage; 10] = [
        cc(c, 0, 1), cc(c, 31, 127), cc(c, 32, 2), cc(c, 63, 0), cc(c, 33, 5), cc(c, 1, 64), cc(c, 64, 1),
        RawShortMessage::note_on(ch(c), KeyNumber::try_from(1u8).unwrap(), u7(33)), cc(12, 0, 9), RawShortMessage::timing_clock(),
    ];
    let (mut h, mut n) = (0xcbf29ce484222325u64, 0u64);
    dfs(&ControlChange14BitMessageScanner::new(), &msgs, depth, &mut h, &mut n);
    (h, n)
}

pub fn t_c11(depth: usize) -> (u64, u64) {
    fn dfs(sc: &ParameterNumberMessageScanner, msgs: &[RawShortMessage; 10], depth: usize, h: &mut u64, n: &mut u64) {
        if depth == 0 {
            return;
        }
        for a in 0..11 {
            let mut s = *sc;
            let code = if a < 10 { code_pnm(&s.feed(&msgs[a])) } else { s.reset(); 0 };
            *h = mix(*h, (a as u64) << 56 ^ code);
            *n += 1;
            dfs(&s, msgs, depth - 1, h, n);
        }
    }
    let c = 11;
    let msgs: [RawShortMessage; 10] = [
        cc(c, 99, 1), cc(c, 98, 127), cc(c, 101, 2), cc(c, 100, 0), cc(c, 6, 5), cc(c, 38, 64), cc(c, 96, 1), cc(c, 97, 33), cc(12, 6, 9),
        RawShortMessage::song_select(u7(6)),
    ];
    let (mut h, mut n) = (0xcbf29ce484222325u64, 0u64);
    dfs(&ParameterNumberMessageScanner::new(), &msgs, depth, &mut h, &mut n);
    (h, n)
}

/// C09: encoder over a boundary grid, both byte orders, both target types; LSB-first encodings fed to a scanner.
pub fn t_c09() -> (u64, u64) {
    let (mut h, mut n) = (0xcbf29ce484222325u64, 0u64);
    for c in [0u8, 9, 15] {
        for &number in &B14 {
            for reg in [false, true] {
                let mut msgs: [Option<ParameterNumberMessage>; 5] = [None; 5];
                let v14 = u14(B14[((number as usize) + c as usize) % B14.len()]);
                let v7 = u7((number % 128) as u8);
                msgs[0] = Some(if reg { ParameterNumberMessage::registered_14_bit(ch(c), u14(number), v14) } else { ParameterNumberMessage::non_registered_14_bit(ch(c), u14(number), v14) });
                msgs[1] = Some(if reg { ParameterNumberMessage::registered_7_bit(ch(c), u14(number), v7) } else { ParameterNumberMessage::non_registered_7_bit(ch(c), u14(number), v7) });
                msgs[2] = Some(if reg { ParameterNumberMessage::registered_increment(ch(c), u14(number), v7) } else { ParameterNumberMessage::non_registered_increment(ch(c), u14(number), v7) });
                msgs[3] = Some(if reg { ParameterNumberMessage::registered_decrement(ch(c), u14(number), v7) } else { ParameterNumberMessage::non_registered_decrement(ch(c), u14(number), v7) });
                for m in msgs.iter().flatten() {
                    for order in [DataEntryByteOrder::MsbFirst, DataEntryByteOrder::LsbFirst] {
                        let a: [Option<RawShortMessage>; 4] = m.to_short_messages(order);
                        let b: [Option<StructuredShortMessage>; 4] = m.to_short_messages(order);
                        let mut sc = ParameterNumberMessageScanner::new();
                        for i in 0..4 {
                            h = mix(h, a[i].as_ref().map_or(0, code_bytes));
                            h = mix(h, b[i].as_ref().map_or(0, code_bytes));
                            if let Some(x) = &a[i] {
                                h = mix(h, code_pnm(&sc.feed(x)));
                            }
                            n += 3;
                        }
                    }
                }
            }
        }
    }
    (h, n)
}

/// C13: the polling scanner on the mock clock: ALL action sequences up to `depth` over four
/// Control Changes, poll, a 1 ms tick and pauses of 4295 ms (just above 2^32 us / 2^32 ns ... in
/// whole units a 32-bit word still holds) and 6 s, for timeouts 2 ms and 10 s.
#[cfg(helgoboss_midi_verif)]
pub fn t_c13(depth: usize) -> (u64, u64) {
    use helgoboss_midi::verif_hooks::set_now_millis;
    fn dfs(sc: &PollingParameterNumberMessageScanner, now: u64, msgs: &[RawShortMessage; 4], depth: usize, h: &mut u64, n: &mut u64) {
        if depth == 0 {
            return;
        }
        for a in 0..8 {
            let mut s = *sc;
            let mut t = now;
            set_now_millis(now);
            let code = match a {
                0..=3 => {
                    let r = s.feed(&msgs[a]);
                    code_pnm(&r[0]).wrapping_mul(31).wrapping_add(code_pnm(&r[1]))
                }
                4 => code_pnm(&s.poll(ch(3))),
                5 => {
                    t += 1;
                    0
                }
                6 => {
                    t += 4295;
                    0
                }
                _ => {
                    t += 6000;
                    0
                }
            };
            *h = mix(*h, (a as u64) << 56 ^ code);
            *n += 1;
            dfs(&s, t, msgs, depth - 1, h, n);
        }
    }
    let msgs: [RawShortMessage; 4] = [cc(3, 6, 5), cc(3, 38, 7), cc(3, 99, 1), cc(3, 98, 2)];
    let (mut h, mut n) = (0xcbf29ce484222325u64, 0u64);
    for timeout_ms in [2u64, 10_000] {
        set_now_millis(0);
        let sc = PollingParameterNumberMessageScanner::new(core::time::Duration::from_millis(timeout_ms));
        h = mix(h, timeout_ms);
        // from the initial state ...
        dfs(&sc, 0, &msgs, depth.saturating_sub(1), &mut h, &mut n);
        // ... and from the state with a complete parameter number (so that "value, long pause, poll"
        // fits into the depth)
        let mut sel = sc;
        let _ = sel.feed(&msgs[2]);
        let _ = sel.feed(&msgs[3]);
        h = mix(h, 0x5E1);
        dfs(&sel, 0, &msgs, depth, &mut h, &mut n);
    }
    (h, n)
}

/// C01 / C02 / C03 / C06: the message layer. Every status byte x a data grid through both in-crate
/// types: bytes, conversions in both directions, every accessor; and every factory function on
/// boundary arguments. (Byte order or pointer width must not matter to any of it.)
pub fn t_msgs() -> (u64, u64) {
    fn acc<M: ShortMessage>(m: &M, h: &mut u64, n: &mut u64) {
        let o = |x: Option<u64>| x.map_or(0, |v| v + 1);
        *h = mix(*h, code_bytes(m));
        *h = mix(*h, u8::from(m.r#type()) as u64);
        *h = mix(*h, o(m.channel().map(|c| c.get() as u64)));
        *h = mix(*h, o(m.key_number().map(|c| c.get() as u64)));
        *h = mix(*h, o(m.velocity().map(|c| c.get() as u64)));
        *h = mix(*h, o(m.controller_number().map(|c| c.get() as u64)));
        *h = mix(*h, o(m.control_value().map(|c| c.get() as u64)));
        *h = mix(*h, o(m.program_number().map(|c| c.get() as u64)));
        *h = mix(*h, o(m.pressure_amount().map(|c| c.get() as u64)));
        *h = mix(*h, o(m.pitch_bend_value().map(|c| c.get() as u64)));
        *h = mix(*h, (m.is_note_on() as u64) << 2 | (m.is_note_off() as u64) << 1 | m.is_note() as u64);
        *h = mix(*h, m.status_byte() as u64 ^ (m.data_byte_1().get() as u64) << 8 ^ (m.data_byte_2().get() as u64) << 16);
        *n += 12;
    }
    let (mut h, mut n) = (0xcbf29ce484222325u64, 0u64);
    let grid: [(u8, u8); 4] = [(0, 1), (1, 0), (64, 65), (127, 127)];
    for s in 0x80..=0xFFu8 {
        for &(d1, d2) in &grid {
            let raw = RawShortMessage::from_bytes((s, u7(d1), u7(d2))).unwrap();
            let st = StructuredShortMessage::from_bytes((s, u7(d1), u7(d2))).unwrap();
            acc(&raw, &mut h, &mut n);
            acc(&st, &mut h, &mut n);
            let a: StructuredShortMessage = raw.to_other();
            let b: RawShortMessage = st.to_other();
            let c = RawShortMessage::from_other(&st);
            let d = raw.to_structured();
            let e = st.to_structured();
            for x in [code_bytes(&a), code_bytes(&b), code_bytes(&c), code_bytes(&d), code_bytes(&e)] {
                h = mix(h, x);
            }
            n += 5;
        }
    }
    // factories on boundary arguments
    for c in [0u8, 9, 15] {
        for &v in &B14 {
            h = mix(h, code_bytes(&RawShortMessage::pitch_bend_change(ch(c), u14(v))));
            h = mix(h, code_bytes(&StructuredShortMessage::pitch_bend_change(ch(c), u14(v))));
            h = mix(h, code_bytes(&RawShortMessage::song_position_pointer(u14(v))));
            h = mix(h, code_bytes(&StructuredShortMessage::song_position_pointer(u14(v))));
            n += 4;
        }
        for &(d1, d2) in &grid {
            let k = KeyNumber::try_from(d1).unwrap();
            h = mix(h, code_bytes(&RawShortMessage::note_on(ch(c), k, u7(d2))));
            h = mix(h, code_bytes(&StructuredShortMessage::note_off(ch(c), k, u7(d2))));
            h = mix(h, code_bytes(&RawShortMessage::polyphonic_key_pressure(ch(c), k, u7(d2))));
            h = mix(h, code_bytes(&StructuredShortMessage::control_change(ch(c), cn(d1), u7(d2))));
            h = mix(h, code_bytes(&RawShortMessage::program_change(ch(c), u7(d1))));
            h = mix(h, code_bytes(&StructuredShortMessage::channel_pressure(ch(c), u7(d2))));
            h = mix(h, code_bytes(&RawShortMessage::song_select(u7(d1))));
            n += 7;
        }
    }
    for f in 0..128u8 {
        let q = TimeCodeQuarterFrame::from(u7(f));
        h = mix(h, U7::from(q).get() as u64);
        h = mix(h, code_bytes(&RawShortMessage::time_code_quarter_frame(q)));
        h = mix(h, code_bytes(&StructuredShortMessage::time_code_quarter_frame(q)));
        n += 3;
    }
    (h, n)
}

/// The transcript belonging to a check, if it has one.
pub fn transcript(id: &str) -> Option<(u64, u64)> {
    match id {
        "C01" | "C02" | "C03" | "C06" => Some(t_msgs()),
        "C07" => Some(t_c07()),
        "C08" => Some(t_c08(3)),
        "C09" => Some(t_c09()),
        "C11" => Some(t_c11(3)),
        #[cfg(helgoboss_midi_verif)]
        "C13" => Some(t_c13(4)),
        _ => None,
    }
}
