//! C07 (14-bit CC encoder + inversion from every reachable scanner state) and C08 (complete
//! concrete fixpoint of the 14-bit CC scanner against its reference model).
#![allow(dead_code)]
use crate::midi::*;
use crate::scan::*;
use helgoboss_midi::*;
use rayon::prelude::*;
use serde_json::json;
use std::sync::atomic::{AtomicU64, Ordering};
use xs::{catch, engine, Check, Limits, Tier, Violation};

/// Reference model exactly as C08 states it: the most recent Control Change with a controller
/// number below 32 on the channel since creation/reset.
pub struct Cc14Oracle;

impl PlainOracle for Cc14Oracle {
    type Sc = ControlChange14BitMessageScanner;
    type M = Option<(u8, u8)>;
    fn init(&self) -> Self::M {
        None
    }
    fn on_cc(&self, m: &Self::M, ch: u8, ctrl: u8, val: u8) -> (Self::M, Option<Tup>) {
        match ctrl {
            0..=31 => (Some((ctrl, val)), None),
            32..=63 => {
                let want = match m {
                    Some((n, msb)) if *n == ctrl - 32 => Some([ch as u32, *n as u32, ctrl as u32, (*msb as u32) * 128 + val as u32, 0, 0]),
                    _ => None,
                };
                (*m, want)
            }
            _ => (*m, None),
        }
    }
    fn class_of_ctrl(ctrl: u8) -> &'static str {
        match ctrl {
            0..=31 => "msb-controller",
            32..=63 => "lsb-controller",
            _ => "other-controller",
        }
    }
}

pub fn c08_system(pid: &'static str, ch: u8, report: Report, values: &[u8]) -> PlainSys<Cc14Oracle> {
    let mut sys = PlainSys::new(pid, Cc14Oracle, ch, report);
    for n in 0..64u8 {
        for &v in values {
            sys.alphabet.push((n, v));
        }
    }
    sys.others = noncontrib_small::<ControlChange14BitMessageScanner>(ch);
    sys
}

pub fn all_values() -> Vec<u8> {
    (0..128).collect()
}

pub fn run_c08(chk: &Check, tier: Tier) {
    chk.rule("complete CONCRETE reachability fixpoint of the real ControlChange14BitMessageScanner on one channel at a time (alphabet: all 64x128 contributing Control Changes, reset, non-contributing class), product with the statement's reference model (last MSB (n,v)); every transition calls the real feed/reset and compares the report with the model; states identified by model state refined by == on the real object; every BFS-tree path re-derived on a fresh scanner");
    chk.assume("one channel at a time with the other 15 idle (isolation is C15)");
    let channels: Vec<u8> = if tier.thorough() { (0..16).collect() } else { vec![0, 9, 15] };
    for &c in &channels {
        let mut sys = c08_system("C08", c, Report { oracle: true, ..Default::default() }, &all_values());
        if c == channels[0] {
            sys.storms = vec![(256, false), (65536, false), (65536, true)];
        }
        let out = xs::explore(&sys, &Limits::default());
        engine::record(chk, &sys, &out, None);
        if c == channels[0] {
            // pumped cycles (every cycle of length <= 3 over 7 controllers, 300 rounds, each feed
            // judged) from every state of a small-domain companion system
            let mut small = c08_system("C08", c, Report { oracle: true, ..Default::default() }, &[0, 1, 127]).with_pumps(&[0, 1, 31, 32, 33, 63, 64], 3);
            small.storms = vec![(256, false)];
            // the 7 + 49 cycles of length <= 2 also with 70000 rounds (16-bit counters driven by feeds)
            small.long_pumps = 56;
            let o2 = xs::explore(&small, &Limits::default());
            engine::record(chk, &small, &o2, None);
        }
        if out.found.is_empty() && out.nodes.len() != 4097 && out.exhaustive {
            // not a violation of the property; tells a reader the state space is not what the
            // design assumed
            chk.set("note_unexpected_state_count", json!(out.nodes.len()));
        }
        if tier.thorough() && out.found.is_empty() && chk.violation_count() == 0 {
            let plain = c08_system("C08", c, Report { oracle: true, ..Default::default() }, &all_values());
            let xs_plain = xs::explore(&plain, &Limits { restoration_check: false, ..Default::default() });
            let r = xs::sr::run(std::sync::Arc::new(plain), xs::n_threads());
            let out = &xs_plain;
            chk.push("stateright_cross_check", json!({"channel": c, "xs_states": out.nodes.len(), "stateright_unique_states": r.unique_states, "stateright_generated": r.generated, "stateright_violation": r.violation}));
            if r.unique_states != out.nodes.len() || r.violation {
                chk.machinery_error(format!("stateright disagrees with xs on channel {}: {} vs {} states, violation={}", c, r.unique_states, out.nodes.len(), r.violation));
            }
        }
    }
}

// ---------------------------------------------------------------------------------------------
// C07
// ---------------------------------------------------------------------------------------------

macro_rules! vio {
    ($chk:expr, $rule:expr, $cls:expr, $case:expr, $detail:expr) => {{
        let sig = format!("C07/{}/{}", $rule, $cls).replace(' ', "_");
        if !$chk.flooded(&sig) {
            $chk.violate(Violation::new($rule, sig, $detail).with_case($case));
        }
    }};
}

fn c07_encoder(chk: &Check) {
    let evals = AtomicU64::new(0);
    let nonzero = AtomicU64::new(0);
    // constructor: panics iff controller >= 32
    for c in 0..16u8 {
        for n in 0..128u8 {
            for v in [0u16, 1, 8191, 16383] {
                let r = catch(|| ControlChange14BitMessage::new(ch(c), cn(n), u14(v)));
                if r.is_ok() != (n < 32) {
                    vio!(chk, "constructor-accepts-iff-msb-controller<32", "new", format!("cc14new|{}|{}|{}", c, n, v),
                        format!("ControlChange14BitMessage::new(ch {}, cn {}, {}) panicked={} but controller<32 is {}", c, n, v, r.is_err(), n < 32));
                }
            }
        }
    }
    evals.fetch_add(16 * 128 * 4, Ordering::Relaxed);
    (0..16u8).into_par_iter().for_each(|c| {
        for n in 0..32u8 {
            let r = catch(|| {
                for v in 0..16384u16 {
                    let m = ControlChange14BitMessage::new(ch(c), cn(n), u14(v));
                    let acc = (m.channel().get(), m.msb_controller_number().get(), m.lsb_controller_number().get(), m.value().get());
                    if acc != (c, n, n + 32, v) {
                        vio!(chk, "accessors-return-arguments", "accessors", format!("cc14|{}|{}|{}", c, n, v), format!("new(ch {}, cn {}, {}) reports (channel, msb, lsb, value) = {:?}", c, n, v, acc));
                    }
                    let want = [(0xB0 | c, n, (v >> 7) as u8), (0xB0 | c, n + 32, (v & 0x7f) as u8)];
                    let r: [RawShortMessage; 2] = m.to_short_messages();
                    let s: [StructuredShortMessage; 2] = m.to_short_messages();
                    let f: [Foreign3; 2] = m.to_short_messages();
                    let fr: [ForeignRefusing; 2] = m.to_short_messages();
                    let r2: [RawShortMessage; 2] = m.into();
                    let s2: [StructuredShortMessage; 2] = m.into();
                    let b = |x: &dyn Fn(usize) -> (u8, U7, U7)| [x(0), x(1)].map(|t| (t.0, t.1.get(), t.2.get()));
                    let got = [
                        b(&|i| r[i].to_bytes()),
                        b(&|i| s[i].to_bytes()),
                        b(&|i| f[i].to_bytes()),
                        b(&|i| fr[i].to_bytes()),
                        b(&|i| r2[i].to_bytes()),
                        b(&|i| s2[i].to_bytes()),
                    ];
                    for (k, g) in got.iter().enumerate() {
                        if *g != want {
                            vio!(chk, "encoding", ["Raw", "Structured", "Foreign3", "ForeignRefusing", "Into<[Raw;2]>", "Into<[Structured;2]>"][k], format!("cc14|{}|{}|{}", c, n, v),
                                format!("new(ch {}, cn {}, {}) encodes to {:?}, expected {:?}", c, n, v, g, want));
                        }
                    }
                }
            });
            if let Err(p) = r {
                vio!(chk, "panics-on-valid-input", "encoder", format!("cc14|{}|{}|*", c, n), format!("encoder/accessors panicked for ch {} cn {}: {}", c, n, p));
            }
        }
        evals.fetch_add(32 * 16384 * 6, Ordering::Relaxed);
        nonzero.fetch_add((0..32u64).map(|_| (0..16384u16).filter(|v| *v != 0).count() as u64).sum::<u64>(), Ordering::Relaxed);
    });
    chk.add_eval(evals.load(Ordering::Relaxed));
    chk.add_nontrivial(nonzero.load(Ordering::Relaxed));
    // history independence: every ordered pair of messages over 16 channels x 32 controllers x 6
    // values, encoded back to back on one thread; the second is judged
    let vals = [0u16, 1, 127, 128, 8192, 16383];
    let mut dom: Vec<(u8, u8, u16)> = Vec::new();
    for c in 0..16u8 {
        for n in 0..32u8 {
            for v in vals {
                dom.push((c, n, v));
            }
        }
    }
    let enc = |&(c, n, v): &(u8, u8, u16)| {
        let m = ControlChange14BitMessage::new(ch(c), cn(n), u14(v));
        let r: [RawShortMessage; 2] = m.to_short_messages();
        let s: [StructuredShortMessage; 2] = m.to_short_messages();
        let r2: [RawShortMessage; 2] = m.into();
        let s2: [StructuredShortMessage; 2] = m.into();
        let b = |t: (u8, U7, U7)| (t.0, t.1.get(), t.2.get());
        [[b(r[0].to_bytes()), b(r[1].to_bytes())], [b(s[0].to_bytes()), b(s[1].to_bytes())], [b(r2[0].to_bytes()), b(r2[1].to_bytes())], [b(s2[0].to_bytes()), b(s2[1].to_bytes())]]
    };
    dom.par_iter().for_each(|a| {
        let r = catch(|| {
            for bmsg in dom.iter() {
                let _ = std::hint::black_box(enc(a));
                let got = enc(bmsg);
                let (c, n, v) = *bmsg;
                let want = [(0xB0 | c, n, (v >> 7) as u8), (0xB0 | c, n + 32, (v & 0x7f) as u8)];
                if got.iter().any(|g| *g != want) {
                    vio!(chk, "encoding-depends-on-previous-call", "encoder-pairs", format!("cc14pair|{:?}|{:?}", a, bmsg), format!("after encoding (ch, cn, value) = {:?}, the encodings of {:?} are {:?}, expected {:?}", a, bmsg, got, want));
                }
            }
        });
        if let Err(p) = r {
            vio!(chk, "panics-on-valid-input", "encoder-pairs", format!("cc14pair|{:?}|*", a), format!("encoder panicked in the pair sweep after {:?}: {}", a, p));
        }
    });
    chk.add_eval((dom.len() * dom.len()) as u64);
    chk.push("ordered_pairs", json!({"domain": dom.len(), "pairs": dom.len() * dom.len()}));
}

/// Inversion from every reachable prior state: `states` are real scanner values; for every
/// message of `msgs` feed its encoding to a copy: first feed nothing, second exactly the message.
fn c07_inversion(chk: &Check, c: u8, states: &[ControlChange14BitMessageScanner], controllers: &[u8], values: &[u16]) -> u64 {
    let n = AtomicU64::new(0);
    states.par_iter().enumerate().for_each(|(si, st)| {
        let r = catch(|| {
            for &k in controllers {
                for &v in values {
                    let m = ControlChange14BitMessage::new(ch(c), cn(k), u14(v));
                    let enc: [RawShortMessage; 2] = m.to_short_messages();
                    let mut sc = *st;
                    let o1 = sc.feed(&enc[0]);
                    let o2 = sc.feed(&enc[1]);
                    if o1.is_some() || o2 != Some(m) {
                        vio!(chk, "scanner-inverts-encoder", if o1.is_some() { "first-feed-reports" } else if o2.is_none() { "second-feed-silent" } else { "wrong-message" },
                            format!("cc14inv|{}|{}|{}|state{}", c, k, v, si),
                            format!("prior scanner state {:?}; feeding the encoding of (ch {}, cn {}, value {}) returned {:?} then {:?}", st, c, k, v, o1, o2));
                    }
                }
            }
        });
        if let Err(p) = r {
            vio!(chk, "panics-on-valid-input", "inversion", format!("cc14inv|{}|state{}", c, si), format!("inversion from state {:?} panicked: {}", st, p));
        }
        n.fetch_add((controllers.len() * values.len()) as u64, Ordering::Relaxed);
    });
    n.load(Ordering::Relaxed)
}

pub fn boundary14() -> Vec<u16> {
    vec![0, 1, 2, 63, 64, 126, 127, 128, 129, 255, 256, 8191, 8192, 16256, 16382, 16383]
}

pub fn run_c07(chk: &Check, tier: Tier) {
    chk.rule("encoder: all 16x32x16384 messages (accessors, to_short_messages for Raw/Structured/Foreign3, From for [T;2]) and all 16x128 controller numbers for the constructor's panic condition; inversion: for EVERY reachable concrete scanner state of a channel (taken from the C08 fixpoint of the real scanner, 4097 states) x messages of that channel, feed the encoding to a copy: nothing, then exactly the message. non-trivial (encoder) = distinct messages with a non-zero value");
    c07_encoder(chk);
    let channels: Vec<u8> = if tier.thorough() { (0..16).collect() } else { vec![0, 9, 15] };
    let all_ctrl: Vec<u8> = (0..32).collect();
    let all_vals: Vec<u16> = (0..16384).collect();
    for (i, &c) in channels.iter().enumerate() {
        if i > 0 && chk.violation_count() > 0 {
            // verdict known; the remaining channels would only repeat it
            chk.not_exhaustive("C07: remaining channels skipped after a violation on the first");
            break;
        }
        // reachable states of channel c: the complete concrete fixpoint of the real scanner
        let mut sys = c08_system("C07", c, Report::default(), &all_values());
        if i == 0 {
            // "whatever it has been fed before" includes many resets
            sys.storms = vec![(256, false), (65536, false), (65536, true)];
        }
        let out = xs::explore(&sys, &Limits::default());
        engine::record(chk, &sys, &out, None);
        // (on the current tree there are 4097; a broken scanner can have millions - the product is
        // then taken over the 20000 shallowest states and the run is reported as capped)
        if out.nodes.len() > 20_000 {
            chk.not_exhaustive(&format!("C07 channel {}: {} reachable states, inversion run from the 20000 shallowest only", c, out.nodes.len()));
        }
        let states: Vec<ControlChange14BitMessageScanner> = out.nodes.iter().take(20_000).map(|n| n.state.sc).collect();
        // full concrete product on the first channel (quick) / on every channel (thorough);
        // otherwise all states x all controllers x boundary values + all values for 2 controllers
        let n = if out.nodes.len() > 20_000 {
            // abnormal state space (broken scanner): shallowest states x boundary values only
            c07_inversion(chk, c, &states, &all_ctrl, &boundary14())
        } else if i == 0 || tier.thorough() {
            c07_inversion(chk, c, &states, &all_ctrl, &all_vals)
        } else {
            c07_inversion(chk, c, &states, &all_ctrl, &boundary14()) + c07_inversion(chk, c, &states, &[0, 31], &all_vals)
        };
        chk.add_eval(n);
        chk.push("inversion", json!({"channel": c, "prior_states": states.len(), "state_x_message_cases": n}));
    }
    chk.sample(json!({"prior_state": "last MSB = (cn 5, 99) on the channel", "message": "ch 0, cn 6, value 8193", "feeds": ["CC 6 =64 -> None", "CC 38 =1 -> Some(original)"]}));
}

/// Configuration B (no default features): the constructor's panic condition, accessors and
/// encoder for every message, and the inversion from every reachable state on one channel over
/// boundary values. (The statement does not depend on the feature configuration; the code does.)
pub fn run_c07_nostd(chk: &Check) {
    chk.rule("the same encoder sweep (all 16x32x16384 messages, all 16x128 controller numbers for the constructor's panic condition) in a build without the std feature, plus the inversion from every reachable concrete scanner state of channel 7 over all 32 controllers x boundary values");
    c07_encoder(chk);
    let mut sys = c08_system("C07", 7, Report::default(), &all_values());
    sys.storms = vec![(256, false), (65536, false)];
    let out = xs::explore(&sys, &Limits::default());
    engine::record(chk, &sys, &out, None);
    let states: Vec<ControlChange14BitMessageScanner> = out.nodes.iter().take(20_000).map(|n| n.state.sc).collect();
    let all_ctrl: Vec<u8> = (0..32).collect();
    let n = c07_inversion(chk, 7, &states, &all_ctrl, &boundary14());
    chk.add_eval(n);
    chk.sample(json!({"configuration": "no default features", "call": "ControlChange14BitMessage::new(ch 0, cn 32, 0)", "required": "panic"}));
}
