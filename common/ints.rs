//! C04 / C05: complete sweeps over the restricted integer types, their ~150 conversions, parsing,
//! formatting and ordering, against reference arithmetic on (sign, u128 magnitude).
//! Compiled into configuration A (std) and B (no default features).
#![allow(dead_code)]
use core::convert::TryFrom;
use core::fmt::{Debug, Display};
use core::hash::Hash;
use core::str::FromStr;
use helgoboss_midi::*;
use rayon::prelude::*;
use serde_json::json;
use std::sync::atomic::{AtomicU64, Ordering};
use xs::{catch, h64, Check, Tier, Violation};

pub trait Prim: Copy + Send + Sync + Display + Debug + 'static {
    const NAME: &'static str;
    const BITS: u32;
    const SIGNED: bool;
    /// (is_negative, magnitude)
    fn wide(self) -> (bool, u128);
    /// wrapping construction from the low BITS of `b`
    fn from_bits(b: u128) -> Self;
}

macro_rules! prim_u {
    ($($t:ty),*) => {$(
        impl Prim for $t {
            const NAME: &'static str = stringify!($t);
            const BITS: u32 = <$t>::BITS;
            const SIGNED: bool = false;
            fn wide(self) -> (bool, u128) { (false, self as u128) }
            fn from_bits(b: u128) -> Self { b as $t }
        }
    )*};
}
macro_rules! prim_i {
    ($($t:ty),*) => {$(
        impl Prim for $t {
            const NAME: &'static str = stringify!($t);
            const BITS: u32 = <$t>::BITS;
            const SIGNED: bool = true;
            fn wide(self) -> (bool, u128) { (self < 0, self.unsigned_abs() as u128) }
            fn from_bits(b: u128) -> Self { b as $t }
        }
    )*};
}
prim_u!(u8, u16, u32, u64, u128, usize);
prim_i!(i8, i16, i32, i64, i128, isize);

pub trait NT:
    Copy + Eq + Ord + Hash + Debug + Display + Default + FromStr + Send + Sync + 'static
{
    const NAME: &'static str;
    const MAXV: u16;
    const REPR_BITS: u32;
    fn getw(self) -> u16;
    fn min_const() -> Self;
    fn max_const() -> Self;
    /// the checked constructor `new`, fed `v` truncated to the repr type
    fn new_checked(v: u16) -> Self;
    fn from_u16(v: u16) -> Option<Self>;
}

macro_rules! nt8 {
    ($t:ident, $max:expr) => {
        impl NT for $t {
            const NAME: &'static str = stringify!($t);
            const MAXV: u16 = $max;
            const REPR_BITS: u32 = 8;
            fn getw(self) -> u16 { self.get() as u16 }
            fn min_const() -> Self { <$t>::MIN }
            fn max_const() -> Self { <$t>::MAX }
            fn new_checked(v: u16) -> Self { <$t>::new(v as u8) }
            fn from_u16(v: u16) -> Option<Self> { <$t>::try_from(v).ok() }
        }
    };
}
nt8!(U4, 15);
nt8!(U7, 127);
nt8!(Channel, 15);
nt8!(KeyNumber, 127);
nt8!(ControllerNumber, 127);
impl NT for U14 {
    const NAME: &'static str = "U14";
    const MAXV: u16 = 16383;
    const REPR_BITS: u32 = 16;
    fn getw(self) -> u16 { self.get() }
    fn min_const() -> Self { U14::MIN }
    fn max_const() -> Self { U14::MAX }
    fn new_checked(v: u16) -> Self { U14::new(v) }
    fn from_u16(v: u16) -> Option<Self> { U14::try_from(v).ok() }
}

pub fn all_values<T: NT>() -> Vec<T> {
    (0..=T::MAXV).map(|v| T::from_u16(v).expect("harness: in-range u16 must convert")).collect()
}

macro_rules! __sig {
    ($chk:expr, $id:expr, $rule:expr, $cls:expr) => {
        format!("{}/{}/{}/{}", $id, $rule, $cls, $chk.part).replace(' ', "_")
    };
}
macro_rules! vio {
    ($chk:expr, $id:expr, $rule:expr, $cls:expr, $case:expr, $($fmt:tt)*) => {
        if !$chk.flooded(&__sig!($chk, $id, $rule, $cls)) {
        $chk.violate(
            Violation::new(<_ as AsRef<str>>::as_ref(&$rule), format!("{}/{}/{}/{}", $id, $rule, $cls, $chk.part), format!($($fmt)*))
                .with_case(($case).to_string()),
        )
        }
    };
}

/// High-part patterns of the truncation alphabet (applied above the low 16 bits).
fn high_patterns(bits: u32) -> Vec<u128> {
    let mut v: Vec<u128> = vec![0];
    for k in [16u32, 17, 23, 24, 30, 31, 32, 33, 47, 62, 63, 64, 65, 95, 126, 127] {
        if k < bits {
            v.push(1u128 << k);
        }
    }
    // all ones above bit 16 (== small negative numbers for signed types), and sign-extension
    // patterns
    let mask: u128 = if bits == 128 { u128::MAX } else { (1u128 << bits) - 1 };
    v.push(mask & !0xFFFFu128);
    if bits > 32 {
        v.push(mask & !0xFFFF_FFFFu128); // upper half ones, bits 16..32 zero
        v.push(0xFFFF_0000u128); // bits 16..32 ones only
    }
    // all ones above every half / quarter boundary of the width (a sign extension whose lower part is
    // NOT negative: "upper half is -1, so hand the lower half to the narrower conversion")
    for k in [32u32, 48, 64, 96] {
        if k < bits {
            v.push(mask & !((1u128 << k) - 1));
        }
    }
    v.sort();
    v.dedup();
    v
}

fn low_boundaries() -> Vec<u128> {
    let mut v: Vec<i64> = Vec::new();
    for k in 0..=16u32 {
        let p = 1i64 << k;
        for d in -2..=2 {
            v.push(p + d);
        }
    }
    for x in 0..=300i64 {
        v.push(x);
    }
    for x in [16380, 16381, 16382, 16383, 16384, 16385, 32767, 32768, 65533, 65534, 65535] {
        v.push(x);
    }
    let mut v: Vec<u128> = v.into_iter().filter(|x| *x >= 0 && *x <= 65535).map(|x| x as u128).collect();
    v.sort();
    v.dedup();
    v
}

/// Iterate the input domain of primitive type P in parallel chunks.
/// 8/16-bit: complete. 32-bit: complete in the thorough tier, truncation alphabet in quick.
/// wider: truncation alphabet {low 16 bits: all (thorough) / boundaries (quick)} x high patterns.
fn for_domain<P: Prim>(tier: Tier, f: &(dyn Fn(P) -> bool + Sync)) -> (u64, bool, u64) {
    if P::BITS <= 16 {
        let n = 1u64 << P::BITS;
        let inr: u64 = (0..n).into_par_iter().map(|b| f(P::from_bits(b as u128)) as u64).sum();
        return (n, true, inr);
    }
    if P::BITS == 32 && tier.thorough() {
        let n = 1u64 << 32;
        let inr: u64 = (0..(1u64 << 16))
            .into_par_iter()
            .map(|hi| {
                let mut c = 0u64;
                for lo in 0..(1u64 << 16) {
                    c += f(P::from_bits(((hi << 16) | lo) as u128)) as u64;
                }
                c
            })
            .sum();
        return (n, true, inr);
    }
    let highs = high_patterns(P::BITS);
    let lows: Vec<u128> = if tier.thorough() { (0..65536u128).collect() } else { low_boundaries() };
    let n = (highs.len() * lows.len()) as u64;
    let inr: u64 = highs
        .par_iter()
        .map(|h| {
            let mut c = 0u64;
            for l in lows.iter() {
                c += f(P::from_bits(h | l)) as u64;
            }
            c
        })
        .sum();
    (n, false, inr)
}

pub struct Counters {
    pub evals: AtomicU64,
    pub out_of_range_inputs: AtomicU64,
    pub in_range_inputs: AtomicU64,
}

/// One conversion `P -> T` (TryFrom, or From through the blanket impl): accepted iff the
/// mathematical value is in 0..=MAX, and then preserved. C04 needs the "iff in range", C05 the
/// value preservation; both are judged here and attributed by rule name.
fn check_into<T, P>(chk: &Check, id: &str, tier: Tier, cnt: &Counters)
where
    T: NT + TryFrom<P>,
    P: Prim,
{
    let cls = format!("{}->{}", P::NAME, T::NAME);
    let (n, complete, inr) = for_domain::<P>(tier, &|p: P| {
        let (neg, mag) = p.wide();
        let in_range = !neg && mag <= T::MAXV as u128;
        let r = catch(|| T::try_from(p).ok().map(|t| t.getw()));
        let case = || format!("into|{}|{}|{}", T::NAME, P::NAME, p);
        match r {
            Err(msg) => vio!(chk, id, "conversion-panics", cls, case(), "{}::try_from({}{}) panicked: {}", T::NAME, p, P::NAME, msg),
            Ok(None) => {
                if in_range {
                    vio!(chk, id, "rejects-in-range-input", cls, case(), "{}::try_from({}{}) failed although the value is in 0..={}", T::NAME, p, P::NAME, T::MAXV);
                }
            }
            Ok(Some(g)) => {
                if !in_range {
                    vio!(chk, id, "accepts-out-of-range-input", cls, case(), "{}::try_from({}{}) succeeded with inner value {} although the input is outside 0..={}", T::NAME, p, P::NAME, g, T::MAXV);
                } else if g as u128 != mag {
                    vio!(chk, id, "value-not-preserved", cls, case(), "{}::try_from({}{}) holds {}", T::NAME, p, P::NAME, g);
                }
                if g > T::MAXV {
                    vio!(chk, id, "holds-out-of-range-value", cls, case(), "{}::try_from({}{}) holds {} > MAX {}", T::NAME, p, P::NAME, g, T::MAXV);
                }
            }
        }
        in_range
    });
    cnt.evals.fetch_add(n, Ordering::Relaxed);
    cnt.in_range_inputs.fetch_add(inr, Ordering::Relaxed);
    cnt.out_of_range_inputs.fetch_add(n - inr, Ordering::Relaxed);
    chk.push("conversions", json!({"conv": cls, "inputs": n, "complete_domain": complete}));
}

fn check_nt_to_nt<A, B>(chk: &Check, id: &str, cnt: &Counters)
where
    A: NT,
    B: NT + TryFrom<A>,
{
    let cls = format!("{}->{}", A::NAME, B::NAME);
    for a in all_values::<A>() {
        let in_range = a.getw() <= B::MAXV;
        let r = catch(|| B::try_from(a).ok().map(|t| t.getw()));
        let case = || format!("nt|{}|{}|{}", A::NAME, B::NAME, a.getw());
        match r {
            Err(msg) => vio!(chk, id, "conversion-panics", cls, case(), "{}::try_from({}({})) panicked: {}", B::NAME, A::NAME, a.getw(), msg),
            Ok(None) if in_range => vio!(chk, id, "rejects-in-range-input", cls, case(), "{}::try_from({}({})) failed", B::NAME, A::NAME, a.getw()),
            Ok(Some(g)) if !in_range => vio!(chk, id, "accepts-out-of-range-input", cls, case(), "{}::try_from({}({})) succeeded with {}", B::NAME, A::NAME, a.getw(), g),
            Ok(Some(g)) if g != a.getw() => vio!(chk, id, "value-not-preserved", cls, case(), "{}::try_from({}({})) holds {}", B::NAME, A::NAME, a.getw(), g),
            _ => {}
        }
        if in_range {
            cnt.in_range_inputs.fetch_add(1, Ordering::Relaxed);
        } else {
            cnt.out_of_range_inputs.fetch_add(1, Ordering::Relaxed);
        }
        cnt.evals.fetch_add(1, Ordering::Relaxed);
    }
}

fn check_out<T, P>(chk: &Check, id: &str, cnt: &Counters)
where
    T: NT,
    P: Prim + From<T>,
{
    let cls = format!("{}->{}", T::NAME, P::NAME);
    for t in all_values::<T>() {
        let r = catch(|| P::from(t).wide());
        let case = || format!("out|{}|{}|{}", T::NAME, P::NAME, t.getw());
        match r {
            Err(msg) => vio!(chk, id, "conversion-panics", cls, case(), "{}::from({}({})) panicked: {}", P::NAME, T::NAME, t.getw(), msg),
            Ok(w) => {
                if w != (false, t.getw() as u128) {
                    vio!(chk, id, "value-not-preserved", cls, case(), "{}::from({}({})) = {}{}", P::NAME, T::NAME, t.getw(), if w.0 { "-" } else { "" }, w.1);
                }
            }
        }
        cnt.evals.fetch_add(1, Ordering::Relaxed);
        cnt.in_range_inputs.fetch_add(1, Ordering::Relaxed);
    }
}

macro_rules! into_all {
    ($chk:expr, $id:expr, $tier:expr, $cnt:expr, $T:ty; $($P:ty),*) => {$( check_into::<$T, $P>($chk, $id, $tier, $cnt); )*};
}
macro_rules! out_all {
    ($chk:expr, $id:expr, $cnt:expr, $T:ty; $($P:ty),*) => {$( check_out::<$T, $P>($chk, $id, $cnt); )*};
}

// Conversions that the current tree does NOT implement (probed by autoref specialisation, so this
// compiles either way): if a change adds one, it is judged like all the others.
struct Probe<T, P>(core::marker::PhantomData<(T, P)>);
trait TfYes<T, P> {
    fn tf(&self, p: P) -> Option<Option<u16>>;
}
trait TfNo<T, P> {
    fn tf(&self, p: P) -> Option<Option<u16>>;
}
impl<T: NT + TryFrom<P>, P> TfYes<T, P> for Probe<T, P> {
    fn tf(&self, p: P) -> Option<Option<u16>> {
        Some(T::try_from(p).ok().map(|t| t.getw()))
    }
}
impl<T, P> TfNo<T, P> for &Probe<T, P> {
    fn tf(&self, _p: P) -> Option<Option<u16>> {
        None
    }
}

macro_rules! probe_into {
    ($chk:expr, $id:expr, $cnt:expr, $T:ty, $P:ty) => {{
        let pr = Probe::<$T, $P>(core::marker::PhantomData);
        let mut exists = false;
        let mut p: $P = <$P>::MIN;
        loop {
            let (neg, mag) = p.wide();
            let in_range = !neg && mag <= <$T as NT>::MAXV as u128;
            match catch(|| (&pr).tf(p)) {
                Ok(None) => break,
                Ok(Some(g)) => {
                    exists = true;
                    $cnt.evals.fetch_add(1, Ordering::Relaxed);
                    let bad = match g {
                        None => in_range,
                        Some(v) => !in_range || v as u128 != mag,
                    };
                    if bad {
                        vio!($chk, $id, if in_range { "rejects-in-range-input" } else { "accepts-out-of-range-input" }, format!("{}->{}(new impl)", <$P as Prim>::NAME, <$T as NT>::NAME), format!("into|{}|{}|{}", <$T as NT>::NAME, <$P as Prim>::NAME, p), "{}::try_from({}{}) = {:?} (a conversion that did not exist on the pinned tree)", <$T as NT>::NAME, p, <$P as Prim>::NAME, g);
                    }
                }
                Err(msg) => {
                    exists = true;
                    vio!($chk, $id, "conversion-panics", format!("{}->{}(new impl)", <$P as Prim>::NAME, <$T as NT>::NAME), format!("into|{}|{}|{}", <$T as NT>::NAME, <$P as Prim>::NAME, p), "{}::try_from({}{}) panicked: {}", <$T as NT>::NAME, p, <$P as Prim>::NAME, msg);
                }
            }
            if p == <$P>::MAX {
                break;
            }
            p += 1;
        }
        $chk.push("conversions_not_on_pinned_tree", json!({"conv": format!("{}->{}", <$P as Prim>::NAME, <$T as NT>::NAME), "implemented_now": exists}));
    }};
}

/// All ~150 conversions. `id` is "C04" or "C05" (the same judgement, reported under the property
/// the caller is checking).
pub fn conversions(chk: &Check, id: &str, tier: Tier, cnt: &Counters) {
    into_all!(chk, id, tier, cnt, U4; u8, u16, i16, u32, i32, u64, i64, u128, i128, usize, isize);
    into_all!(chk, id, tier, cnt, U7; u8, u16, i16, u32, i32, u64, i64, u128, i128, usize, isize);
    into_all!(chk, id, tier, cnt, Channel; u8, u16, i16, u32, i32, u64, i64, u128, i128, usize, isize);
    into_all!(chk, id, tier, cnt, KeyNumber; u8, u16, i16, u32, i32, u64, i64, u128, i128, usize, isize);
    into_all!(chk, id, tier, cnt, ControllerNumber; u8, u16, i16, u32, i32, u64, i64, u128, i128, usize, isize);
    into_all!(chk, id, tier, cnt, U14; u8, i8, u16, u32, i32, u64, i64, u128, i128, usize);
    // the primitive sources for which the pinned tree has NO fallible conversion (complete domains)
    probe_into!(chk, id, cnt, U4, i8);
    probe_into!(chk, id, cnt, U7, i8);
    probe_into!(chk, id, cnt, Channel, i8);
    probe_into!(chk, id, cnt, KeyNumber, i8);
    probe_into!(chk, id, cnt, ControllerNumber, i8);
    probe_into!(chk, id, cnt, U14, i16);
    // newtype -> newtype
    check_nt_to_nt::<U4, U7>(chk, id, cnt);
    check_nt_to_nt::<U4, U14>(chk, id, cnt);
    check_nt_to_nt::<U7, U14>(chk, id, cnt);
    check_nt_to_nt::<U14, U4>(chk, id, cnt);
    check_nt_to_nt::<U7, U4>(chk, id, cnt);
    check_nt_to_nt::<U14, U7>(chk, id, cnt);
    check_nt_to_nt::<Channel, U4>(chk, id, cnt);
    check_nt_to_nt::<U4, Channel>(chk, id, cnt);
    check_nt_to_nt::<KeyNumber, U7>(chk, id, cnt);
    check_nt_to_nt::<U7, KeyNumber>(chk, id, cnt);
    check_nt_to_nt::<ControllerNumber, U7>(chk, id, cnt);
    check_nt_to_nt::<U7, ControllerNumber>(chk, id, cnt);
    // newtype -> primitive
    out_all!(chk, id, cnt, U4; u8, i8, u16, i16, u32, i32, u64, i64, u128, i128, usize, isize);
    out_all!(chk, id, cnt, U7; u8, i8, u16, i16, u32, i32, u64, i64, u128, i128, usize, isize);
    out_all!(chk, id, cnt, Channel; u8, i8, u16, i16, u32, i32, u64, i64, u128, i128, usize, isize);
    out_all!(chk, id, cnt, KeyNumber; u8, i8, u16, i16, u32, i32, u64, i64, u128, i128, usize, isize);
    out_all!(chk, id, cnt, ControllerNumber; u8, i8, u16, i16, u32, i32, u64, i64, u128, i128, usize, isize);
    out_all!(chk, id, cnt, U14; u16, i16, u32, i32, u64, i64, u128, i128, usize, isize);
}

// --- parsing ----------------------------------------------------------------------------------

const SIGMA: [char; 14] = ['0', '1', '2', '3', '4', '5', '6', '7', '8', '9', '+', '-', ' ', 'a'];

/// Reference recogniser: '+'? digit+ with value <= max (arbitrary length, no overflow).
pub fn ref_parse(s: &str, max: u16) -> Option<u16> {
    let body = s.strip_prefix('+').unwrap_or(s);
    if body.is_empty() {
        return None;
    }
    let mut v: u64 = 0;
    for c in body.chars() {
        let d = c.to_digit(10)? as u64;
        if !c.is_ascii_digit() {
            return None;
        }
        v = (v * 10 + d).min(1_000_000);
    }
    if v <= max as u64 {
        Some(v as u16)
    } else {
        None
    }
}

fn check_parse_one<T: NT>(chk: &Check, id: &str, s: &str) -> bool {
    let want = ref_parse(s, T::MAXV);
    let r = catch(|| s.parse::<T>().ok().map(|t| t.getw()));
    let case = || format!("parse|{}|{}", T::NAME, s);
    // C04 is about RANGE only: "parsing fails exactly for out-of-range input". For a string that is
    // not a decimal numeral at all it demands nothing but that an accepted result be in range (that
    // such strings are rejected is C05's clause "accepts exactly the unsigned decimal numerals").
    let range_only = id == "C04" && !is_numeral(s);
    match r {
        Err(msg) => {
            if !range_only {
                vio!(chk, id, "parse-panics", T::NAME, case(), "{:?}.parse::<{}>() panicked: {}", s, T::NAME, msg)
            }
        }
        Ok(g) => {
            if range_only {
                if let Some(v) = g {
                    if v > T::MAXV {
                        vio!(chk, id, "parse-yields-out-of-range-value", T::NAME, case(), "{:?}.parse::<{}>() = Ok({}), which is above {}::MAX = {}", s, T::NAME, v, T::NAME, T::MAXV);
                    }
                }
            } else if g != want {
                let rule = match (g, want) {
                    (Some(_), None) => "parse-accepts-invalid",
                    (None, Some(_)) => "parse-rejects-valid",
                    _ => "parse-wrong-value",
                };
                vio!(chk, id, rule, T::NAME, case(), "{:?}.parse::<{}>() = {:?}, reference recogniser says {:?}", s, T::NAME, g, want);
            }
        }
    }
    want.is_some()
}

/// '+'? digit+ (ASCII digits), of any length
fn is_numeral(s: &str) -> bool {
    let body = s.strip_prefix('+').unwrap_or(s);
    !body.is_empty() && body.bytes().all(|b| b.is_ascii_digit())
}

fn parsing_for<T: NT>(chk: &Check, id: &str, tier: Tier, cnt: &Counters) {
    let max_len = if tier.thorough() { 6 } else { 4 };
    // all strings over SIGMA up to max_len: enumerate by first character in parallel
    let accepted = AtomicU64::new(0);
    let total = AtomicU64::new(0);
    check_parse_one::<T>(chk, id, "");
    total.fetch_add(1, Ordering::Relaxed);
    SIGMA.par_iter().for_each(|&c0| {
        let mut acc = 0u64;
        let mut tot = 0u64;
        let mut stack: Vec<String> = vec![c0.to_string()];
        while let Some(s) = stack.pop() {
            tot += 1;
            if check_parse_one::<T>(chk, id, &s) {
                acc += 1;
            }
            if s.chars().count() < max_len {
                for &c in SIGMA.iter() {
                    let mut t = s.clone();
                    t.push(c);
                    stack.push(t);
                }
            }
        }
        accepted.fetch_add(acc, Ordering::Relaxed);
        total.fetch_add(tot, Ordering::Relaxed);
    });
    // structured numerals: every value 0..=MAX+300 with 0..3 leading zeros (and 9 zeros), optional '+'
    let mut tot = 0u64;
    let mut acc = 0u64;
    for v in 0..=(T::MAXV as u32 + 300) {
        for zeros in [0usize, 1, 2, 3, 9, 36, 37, 38, 39, 40, 41, 64, 300] {
            for plus in ["", "+"] {
                let s = format!("{}{}{}", plus, "0".repeat(zeros), v);
                tot += 1;
                if check_parse_one::<T>(chk, id, &s) {
                    acc += 1;
                }
            }
        }
    }
    // every numeral up to 1 100 000 (seven digits; past 2^16 and 2^20), plain and with '+': a
    // hand-rolled accumulator in the representation type wraps somewhere in here
    {
        let t2 = AtomicU64::new(0);
        let a2 = AtomicU64::new(0);
        (0u32..110).into_par_iter().for_each(|blk| {
            use std::fmt::Write as _;
            let mut s = String::with_capacity(12);
            let (mut t, mut a) = (0u64, 0u64);
            for v in (blk * 10_000)..((blk + 1) * 10_000) {
                for plus in [false, true] {
                    s.clear();
                    if plus {
                        s.push('+');
                    }
                    let _ = write!(s, "{}", v);
                    t += 1;
                    if check_parse_one::<T>(chk, id, &s) {
                        a += 1;
                    }
                }
            }
            t2.fetch_add(t, Ordering::Relaxed);
            a2.fetch_add(a, Ordering::Relaxed);
        });
        tot += t2.load(Ordering::Relaxed);
        acc += a2.load(Ordering::Relaxed);
    }
    // a second, smaller alphabet with multi-byte characters (2, 3 and 4 bytes in UTF-8): byte-offset
    // slicing or per-byte classification goes wrong on exactly these
    {
        let sigma2 = ['1', '+', 'x', '0', '\u{e9}', '\u{20ac}', '\u{1F600}', '\u{a0}', '\u{ff11}'];
        let mut level: Vec<String> = vec![String::new()];
        for _ in 0..(if tier.thorough() { 4 } else { 3 }) {
            let mut next = Vec::new();
            for p in &level {
                for &c in sigma2.iter() {
                    let mut t = p.clone();
                    t.push(c);
                    tot += 1;
                    if check_parse_one::<T>(chk, id, &t) {
                        acc += 1;
                    }
                    next.push(t);
                }
            }
            level = next;
        }
    }
    // the complete 7-bit ASCII alphabet (control characters, punctuation next to the digits in the
    // code table, letters: note names, hex digits, ...): all strings up to length 3 (4 thorough)
    {
        let ascii_len = if tier.thorough() { 4 } else { 3 };
        let a_tot = AtomicU64::new(0);
        let a_acc = AtomicU64::new(0);
        (0u8..128).into_par_iter().for_each(|c0| {
            let mut buf = [c0, 0, 0, 0];
            let mut t = 0u64;
            let mut a = 0u64;
            fn rec<T: NT>(chk: &Check, id: &str, buf: &mut [u8; 4], len: usize, max: usize, t: &mut u64, a: &mut u64) {
                let s = std::str::from_utf8(&buf[..len]).unwrap();
                *t += 1;
                if check_parse_one::<T>(chk, id, s) {
                    *a += 1;
                }
                if len < max {
                    for c in 0u8..128 {
                        buf[len] = c;
                        rec::<T>(chk, id, buf, len + 1, max, t, a);
                    }
                }
            }
            rec::<T>(chk, id, &mut buf, 1, ascii_len, &mut t, &mut a);
            a_tot.fetch_add(t, Ordering::Relaxed);
            a_acc.fetch_add(a, Ordering::Relaxed);
        });
        // every Unicode scalar value alone, after a digit and before a digit
        let planes: Vec<u32> = (0..0x11u32).collect();
        planes.par_iter().for_each(|&pl| {
            let mut t = 0u64;
            let mut a = 0u64;
            let mut s = String::with_capacity(8);
            for cp in (pl << 16)..((pl + 1) << 16) {
                if let Some(c) = char::from_u32(cp) {
                    if c.is_ascii() {
                        continue;
                    }
                    for shape in 0..3 {
                        s.clear();
                        if shape == 2 {
                            s.push('1');
                        }
                        s.push(c);
                        if shape == 1 {
                            s.push('1');
                        }
                        t += 1;
                        if check_parse_one::<T>(chk, id, &s) {
                            a += 1;
                        }
                    }
                }
            }
            a_tot.fetch_add(t, Ordering::Relaxed);
            a_acc.fetch_add(a, Ordering::Relaxed);
        });
        tot += a_tot.load(Ordering::Relaxed);
        acc += a_acc.load(Ordering::Relaxed);
        chk.push("parsing_full_ascii", json!({"type": T::NAME, "max_len": ascii_len, "strings_incl_unicode_singletons": a_tot.load(Ordering::Relaxed)}));
    }
    // numerals around 2^k for k in {8, 16, 32, 64, 128}: a hand-rolled accumulator wraps there
    for base in ["256", "65536", "4294967296", "18446744073709551616", "340282366920938463463374607431768211456"] {
        let b: u128 = base.parse().unwrap_or(0);
        for r in [0u32, 1, 2, 3, 15, 16, 127, 128, T::MAXV as u32, T::MAXV as u32 + 1] {
            let n = if b == 0 { format!("{}{}", &base[..base.len() - 3], 456 + r) } else { (b + r as u128).to_string() };
            for pre in ["", "+", "0"] {
                let s2 = format!("{}{}", pre, n);
                tot += 1;
                if check_parse_one::<T>(chk, id, &s2) {
                    acc += 1;
                }
            }
        }
    }
    for s in ["255", "256", "257", "65535", "65536", "65537", "4294967296", "18446744073709551616", "٣", "１", "1_0", "0x10", "1e1", "1.0", " 1", "1 ", "\t1", "+ 1", "++1", "+-1", "-+1", "−1", "1\n", "1\0"] {
        tot += 1;
        if check_parse_one::<T>(chk, id, s) {
            acc += 1;
        }
    }
    cnt.evals.fetch_add(total.load(Ordering::Relaxed) + tot, Ordering::Relaxed);
    cnt.in_range_inputs.fetch_add(accepted.load(Ordering::Relaxed) + acc, Ordering::Relaxed);
    chk.push("parsing", json!({"type": T::NAME, "strings": total.load(Ordering::Relaxed) + tot, "max_len_over_alphabet": max_len, "strings_the_reference_accepts": accepted.load(Ordering::Relaxed) + acc}));
}

pub fn parsing(chk: &Check, id: &str, tier: Tier, cnt: &Counters) {
    parsing_for::<U4>(chk, id, tier, cnt);
    parsing_for::<U7>(chk, id, tier, cnt);
    parsing_for::<U14>(chk, id, tier, cnt);
    parsing_for::<Channel>(chk, id, tier, cnt);
    parsing_for::<KeyNumber>(chk, id, tier, cnt);
    parsing_for::<ControllerNumber>(chk, id, tier, cnt);
}

// --- new / constants ----------------------------------------------------------------------------

fn check_new<T: NT>(chk: &Check, cnt: &Counters) {
    let n: u32 = 1 << T::REPR_BITS;
    for v in 0..n {
        let v = v as u16;
        let in_range = v <= T::MAXV;
        let r = catch(|| T::new_checked(v).getw());
        let case = || format!("new|{}|{}", T::NAME, v);
        match r {
            Ok(g) => {
                if !in_range {
                    vio!(chk, "C04", "new-panics-iff-out-of-range", T::NAME, case(), "{}::new({}) returned a value holding {} instead of panicking (MAX is {})", T::NAME, v, g, T::MAXV);
                } else if g != v {
                    vio!(chk, "C04", "new-preserves-value", T::NAME, case(), "{}::new({}).get() = {}", T::NAME, v, g);
                }
            }
            Err(msg) => {
                if in_range {
                    vio!(chk, "C04", "new-panics-iff-out-of-range", T::NAME, case(), "{}::new({}) panicked for an in-range value: {}", T::NAME, v, msg);
                }
            }
        }
        cnt.evals.fetch_add(1, Ordering::Relaxed);
        if in_range {
            cnt.in_range_inputs.fetch_add(1, Ordering::Relaxed);
        } else {
            cnt.out_of_range_inputs.fetch_add(1, Ordering::Relaxed);
        }
    }
    if T::min_const().getw() != 0 || T::max_const().getw() != T::MAXV || T::default().getw() != 0 {
        vio!(chk, "C04", "min-max-default", T::NAME, format!("consts|{}", T::NAME), "{}: MIN={} MAX={} default={}", T::NAME, T::min_const().getw(), T::max_const().getw(), T::default().getw());
    }
}

pub fn controller_constants() -> Vec<(&'static str, ControllerNumber)> {
    use helgoboss_midi::controller_numbers::*;
    macro_rules! list { ($($n:ident),* $(,)?) => { vec![$((stringify!($n), $n)),*] }; }
    list![
        BANK_SELECT, MODULATION_WHEEL, BREATH_CONTROLLER, FOOT_CONTROLLER, PORTAMENTO_TIME,
        DATA_ENTRY_MSB, CHANNEL_VOLUME, BALANCE, PAN, EXPRESSION_CONTROLLER, EFFECT_CONTROL_1,
        EFFECT_CONTROL_2, GENERAL_PURPOSE_CONTROLLER_1, GENERAL_PURPOSE_CONTROLLER_2,
        GENERAL_PURPOSE_CONTROLLER_3, GENERAL_PURPOSE_CONTROLLER_4, BANK_SELECT_LSB,
        MODULATION_WHEEL_LSB, BREATH_CONTROLLER_LSB, FOOT_CONTROLLER_LSB, PORTAMENTO_TIME_LSB,
        DATA_ENTRY_MSB_LSB, CHANNEL_VOLUME_LSB, BALANCE_LSB, PAN_LSB, EXPRESSION_CONTROLLER_LSB,
        EFFECT_CONTROL_1_LSB, EFFECT_CONTROL_2_LSB, GENERAL_PURPOSE_CONTROLLER_1_LSB,
        GENERAL_PURPOSE_CONTROLLER_2_LSB, GENERAL_PURPOSE_CONTROLLER_3_LSB,
        GENERAL_PURPOSE_CONTROLLER_4_LSB, DAMPER_PEDAL_ON_OFF, PORTAMENTO_ON_OFF, SOSTENUTO_ON_OFF,
        SOFT_PEDAL_ON_OFF, LEGATO_FOOTSWITCH, HOLD_2, SOUND_CONTROLLER_1, SOUND_CONTROLLER_2,
        SOUND_CONTROLLER_3, SOUND_CONTROLLER_4, SOUND_CONTROLLER_5, SOUND_CONTROLLER_6,
        SOUND_CONTROLLER_7, SOUND_CONTROLLER_8, SOUND_CONTROLLER_9, SOUND_CONTROLLER_10,
        GENERAL_PURPOSE_CONTROLLER_5, GENERAL_PURPOSE_CONTROLLER_6, GENERAL_PURPOSE_CONTROLLER_7,
        GENERAL_PURPOSE_CONTROLLER_8, PORTAMENTO_CONTROL, HIGH_RESOLUTION_VELOCITY_PREFIX,
        EFFECTS_1_DEPTH, EFFECTS_2_DEPTH, EFFECTS_3_DEPTH, EFFECTS_4_DEPTH, EFFECTS_5_DEPTH,
        DATA_INCREMENT, DATA_DECREMENT, NON_REGISTERED_PARAMETER_NUMBER_LSB,
        NON_REGISTERED_PARAMETER_NUMBER_MSB, REGISTERED_PARAMETER_NUMBER_LSB,
        REGISTERED_PARAMETER_NUMBER_MSB, ALL_SOUND_OFF, RESET_ALL_CONTROLLERS,
        LOCAL_CONTROL_ON_OFF, ALL_NOTES_OFF, OMNI_MODE_OFF, OMNI_MODE_ON, MONO_MODE_ON, POLY_MODE_ON,
    ]
}

/// Range audit of values handed out by messages and encoders (C04 clause "fields and data bytes
/// of messages produced by factories, encoders and scanners").
fn range_audit(chk: &Check, cnt: &Counters) {
    use helgoboss_midi::{ShortMessage, ShortMessageFactory};
    let bad = AtomicU64::new(0);
    // every field of every message built from every valid triple, in both representations
    (0x80..=0xFFu8).into_par_iter().for_each(|s| {
        for d1 in 0..128u8 {
            for d2 in 0..128u8 {
                let r = catch(|| {
                    let b = (s, U7::try_from(d1).unwrap(), U7::try_from(d2).unwrap());
                    let raw = RawShortMessage::from_bytes(b).unwrap();
                    let st = raw.to_structured();
                    let mut ok = true;
                    for m in [&raw as &dyn Audit, &st as &dyn Audit] {
                        ok &= m.audit();
                    }
                    ok
                });
                if r != Ok(true) {
                    if bad.fetch_add(1, Ordering::Relaxed) < 5 {
                        vio!(chk, "C04", "message-field-out-of-range", "short-message", format!("audit|{}|{}|{}", s, d1, d2), "a field or data byte of the message built from ({:#04X},{},{}) is out of range (or an accessor panicked: {:?})", s, d1, d2, r.err());
                    }
                }
            }
        }
    });
    cnt.evals.fetch_add(128 * 128 * 128 * 2, Ordering::Relaxed);
    // encoders on every 14-bit value (where a bad split would show)
    for v in 0..16384u16 {
        let r = catch(|| {
            let val = U14::try_from(v).unwrap();
            let c = Channel::try_from(3u8).unwrap();
            let mut ok = true;
            let m = ControlChange14BitMessage::new(c, ControllerNumber::try_from(7u8).unwrap(), val);
            for sm in m.to_short_messages::<RawShortMessage>().iter() {
                ok &= sm.audit();
            }
            ok &= m.value().get() <= 16383 && m.lsb_controller_number().get() <= 127;
            for p in [
                ParameterNumberMessage::registered_14_bit(c, val, val),
                ParameterNumberMessage::non_registered_7_bit(c, val, U7::try_from((v & 0x7f) as u8).unwrap()),
                ParameterNumberMessage::registered_increment(c, val, U7::try_from((v >> 7) as u8).unwrap()),
            ] {
                for order in [DataEntryByteOrder::MsbFirst, DataEntryByteOrder::LsbFirst] {
                    for sm in p.to_short_messages::<RawShortMessage>(order).iter().flatten() {
                        ok &= sm.audit();
                    }
                }
                ok &= p.number().get() <= 16383 && p.value().get() <= 16383 && p.channel().get() <= 15;
            }
            for sm in [RawShortMessage::pitch_bend_change(c, val), RawShortMessage::song_position_pointer(val)] {
                ok &= sm.audit();
            }
            ok
        });
        if r != Ok(true) {
            vio!(chk, "C04", "encoder-output-out-of-range", "encoders", format!("audit14|{}", v), "an encoder given the 14-bit value {} produced an out-of-range byte or field (or panicked: {:?})", v, r.err());
        }
    }
    cnt.evals.fetch_add(16384 * 9, Ordering::Relaxed);
    // a third-party message whose status byte changes between two reads inside one call (a live
    // view of an input buffer): every ordered pair of valid status bytes x starting phase; whatever
    // an accessor returns must be in range (what it "should" return is undefined; a panic is not
    // judged here)
    let flaky_bad = AtomicU64::new(0);
    (0x80..=0xFFu8).into_par_iter().for_each(|s1| {
        for s2 in 0x80..=0xFFu8 {
            for phase in 0..2u32 {
                let mk = || crate::midi::ForeignFlaky { statuses: [s1, s2], d1: U7::try_from(127u8).unwrap(), d2: U7::try_from(100u8).unwrap(), calls: core::cell::Cell::new(phase) };
                let checks: [&dyn Fn() -> bool; 8] = [
                    &|| mk().channel().map_or(true, |c| c.get() <= 15),
                    &|| mk().key_number().map_or(true, |c| c.get() <= 127),
                    &|| mk().velocity().map_or(true, |c| c.get() <= 127),
                    &|| mk().controller_number().map_or(true, |c| c.get() <= 127),
                    &|| mk().program_number().map_or(true, |c| c.get() <= 127),
                    &|| mk().pitch_bend_value().map_or(true, |c| c.get() <= 16383),
                    &|| mk().to_structured().audit(),
                    &|| {
                        let r: RawShortMessage = mk().to_other();
                        r.audit()
                    },
                ];
                for (i, f) in checks.iter().enumerate() {
                    if let Ok(false) = catch(|| f()) {
                        if flaky_bad.fetch_add(1, Ordering::Relaxed) < 3 {
                            let what = ["channel", "key_number", "velocity", "controller_number", "program_number", "pitch_bend_value", "to_structured", "to_other"][i];
                            vio!(chk, "C04", "message-field-out-of-range", "changing-status-byte", format!("flaky|{}|{}|{}|{}", s1, s2, phase, i), "{}() of a third-party message whose status_byte() returns {:#04X} and {:#04X} alternately (starting at call {}) handed out an out-of-range value", what, s1, s2, phase);
                        }
                    }
                }
            }
        }
    });
    cnt.evals.fetch_add(128 * 128 * 2 * 8, Ordering::Relaxed);
}

trait Audit {
    fn audit(&self) -> bool;
}
impl<M: helgoboss_midi::ShortMessage> Audit for M {
    fn audit(&self) -> bool {
        self.status_byte() >= 0x80
            && self.data_byte_1().get() <= 127
            && self.data_byte_2().get() <= 127
            && self.to_bytes().1.get() <= 127
            && self.to_bytes().2.get() <= 127
            && self.channel().map_or(true, |c| c.get() <= 15)
            && self.key_number().map_or(true, |c| c.get() <= 127)
            && self.velocity().map_or(true, |c| c.get() <= 127)
            && self.controller_number().map_or(true, |c| c.get() <= 127)
            && self.control_value().map_or(true, |c| c.get() <= 127)
            && self.program_number().map_or(true, |c| c.get() <= 127)
            && self.pressure_amount().map_or(true, |c| c.get() <= 127)
            && self.pitch_bend_value().map_or(true, |c| c.get() <= 16383)
    }
}

pub fn run_c04(chk: &Check, tier: Tier) {
    chk.rule("every conversion into each of the six restricted integer types over its source domain (8/16-bit and newtype sources complete; 32-bit complete in thorough; wider sources over the truncation alphabet {low 16 bits} x {high-bit patterns incl. sign extension}); `new` over every repr value under catch_unwind; all strings over a 14-symbol alphabet up to length 4 (6 thorough), all 7-bit ASCII strings up to length 3 (4 thorough), every Unicode scalar value alone / before / after a digit, every numeral up to 1 100 000, plus structured numerals; constants; range audit of message fields over all 2^21 triples, of encoder outputs over all 14-bit values, and of every accessor of a third-party message whose status byte changes between reads (all ordered pairs of status bytes). non-trivial = distinct (operation,input) cases whose input is OUT of range, i.e. that must be rejected");
    let cnt = Counters { evals: AtomicU64::new(0), out_of_range_inputs: AtomicU64::new(0), in_range_inputs: AtomicU64::new(0) };
    check_new::<U4>(chk, &cnt);
    check_new::<U7>(chk, &cnt);
    check_new::<U14>(chk, &cnt);
    check_new::<Channel>(chk, &cnt);
    check_new::<KeyNumber>(chk, &cnt);
    check_new::<ControllerNumber>(chk, &cnt);
    conversions(chk, "C04", tier, &cnt);
    let before = cnt.in_range_inputs.load(Ordering::Relaxed);
    parsing(chk, "C04", tier, &cnt);
    let accepted = cnt.in_range_inputs.load(Ordering::Relaxed) - before;
    let _ = accepted;
    for (name, c) in controller_constants() {
        if c.get() > 127 {
            vio!(chk, "C04", "constant-out-of-range", "controller_numbers", format!("const|{}", name), "controller_numbers::{} = {}", name, c.get());
        }
        cnt.evals.fetch_add(1, Ordering::Relaxed);
    }
    range_audit(chk, &cnt);
    chk.add_eval(cnt.evals.load(Ordering::Relaxed));
    chk.add_nontrivial(cnt.out_of_range_inputs.load(Ordering::Relaxed));
    chk.set(&format!("in_range_cases_{}", chk.part), json!(cnt.in_range_inputs.load(Ordering::Relaxed)));
    chk.sample(json!({"op": "U14::try_from(-1i8)", "expected": "Err (or no such conversion)", "config": chk.part}));
    chk.sample(json!({"op": "U7::new(200)", "expected": "panic", "config": chk.part}));
    chk.sample(json!({"op": "Channel::try_from(0xFFFF_FFFF_0000_0003u64)", "expected": "Err (a check on a truncated copy would accept 3)", "config": chk.part}));
}

// --- C05 extras: ordering, display -------------------------------------------------------------

fn check_order<T: NT>(chk: &Check, tier: Tier, cnt: &Counters) {
    let vals = all_values::<T>();
    let n = vals.len();
    let full = n <= 128 || tier.thorough();
    let bad = AtomicU64::new(0);
    (0..n).into_par_iter().for_each(|i| {
        let a = vals[i];
        let js: Vec<usize> = if full {
            (0..n).collect()
        } else {
            let mut v: Vec<usize> = vec![0, 1, 2, 126, 127, 128, 129, 255, 256, 8191, 8192, n - 2, n - 1];
            for d in 0..=3usize {
                v.push(i.saturating_sub(d));
                v.push((i + d).min(n - 1));
            }
            v.push(i ^ 0x80);
            v.push(i ^ 0x100);
            v.push((i >> 7) | ((i & 0x7f) << 7));
            v.retain(|&j| j < n);
            v.sort();
            v.dedup();
            v
        };
        for &j in js.iter() {
            let b = vals[j];
            let ok = (a.cmp(&b) == i.cmp(&j))
                && (a.partial_cmp(&b) == Some(i.cmp(&j)))
                && ((a == b) == (i == j))
                && ((a < b) == (i < j))
                && ((a >= b) == (i >= j))
                && (i != j || h64(&a) == h64(&b));
            if !ok && bad.fetch_add(1, Ordering::Relaxed) < 3 {
                vio!(chk, "C05", "ordering-agrees-with-integers", T::NAME, format!("order|{}|{}|{}", T::NAME, i, j), "{}({}) vs {}({}): cmp={:?} eq={}", T::NAME, i, T::NAME, j, a.cmp(&b), a == b);
            }
        }
        cnt.evals.fetch_add(js.len() as u64, Ordering::Relaxed);
    });
    chk.push("ordering", json!({"type": T::NAME, "all_pairs": full}));
    if !full {
        chk.assume("U14 ordering in the quick tier: every value against its neighbours, bit-flips, byte swaps and a boundary set (all 2.7e8 pairs in the thorough tier)");
    }
}

fn check_display<T: NT>(chk: &Check, cnt: &Counters) {
    for t in all_values::<T>() {
        let r = catch(|| {
            let s = t.to_string();
            (s.clone(), s.parse::<T>().ok().map(|x| x.getw()))
        });
        let case = || format!("display|{}|{}", T::NAME, t.getw());
        match r {
            Ok((s, back)) => {
                if s != t.getw().to_string() {
                    vio!(chk, "C05", "display-prints-decimal", T::NAME, case(), "{}({}) displays as {:?}", T::NAME, t.getw(), s);
                }
                if back != Some(t.getw()) {
                    vio!(chk, "C05", "display-parse-identity", T::NAME, case(), "{}({}) -> {:?} -> {:?}", T::NAME, t.getw(), s, back);
                }
            }
            Err(msg) => vio!(chk, "C05", "display-panics", T::NAME, case(), "Display of {}({}) panicked: {}", T::NAME, t.getw(), msg),
        }
        cnt.evals.fetch_add(1, Ordering::Relaxed);
        // with formatter flags (width, fill, alignment, sign, zero padding, precision, alternate) the
        // output may be padded and signed like an integer's, but it must still PRINT THE DECIMAL
        // VALUE: stripped of padding, '+' and leading zeros it must be the numeral
        let r = catch(|| {
            [
                format!("{:5}", t), format!("{:<7}", t), format!("{:^9}", t), format!("{:*>8}", t), format!("{:05}", t), format!("{:+}", t),
                format!("{:.2}", t), format!("{:.0}", t), format!("{:#}", t), format!("{:+09.3}", t), format!("{:1}", t), format!("{:_<3.1}", t),
            ]
        });
        match r {
            Ok(outs) => {
                const SPECS: [&str; 12] = ["{:5}", "{:<7}", "{:^9}", "{:*>8}", "{:05}", "{:+}", "{:.2}", "{:.0}", "{:#}", "{:+09.3}", "{:1}", "{:_<3.1}"];
                for (i, o) in outs.iter().enumerate() {
                    let core = o.trim_matches(|c| c == ' ' || c == '*' || c == '_');
                    let core = core.strip_prefix('+').unwrap_or(core);
                    let digits = core.trim_start_matches('0');
                    let digits = if digits.is_empty() && core.ends_with('0') { "0" } else { digits };
                    if digits != t.getw().to_string() {
                        vio!(chk, "C05", "display-prints-decimal", format!("{}/format-flags", T::NAME), format!("displayspec|{}|{}|{}", T::NAME, t.getw(), SPECS[i]), "format!({:?}, {}({})) = {:?}, which is not the decimal value (padded / signed)", SPECS[i], T::NAME, t.getw(), o);
                    }
                }
                cnt.evals.fetch_add(12, Ordering::Relaxed);
            }
            Err(msg) => vio!(chk, "C05", "display-panics", format!("{}/format-flags", T::NAME), case(), "Display of {}({}) with formatter flags panicked: {}", T::NAME, t.getw(), msg),
        }
    }
    if T::min_const().getw() != 0 || T::max_const().getw() != T::MAXV || T::default().getw() != 0 || T::min_const() > T::max_const() {
        vio!(chk, "C05", "min-max-default", T::NAME, format!("consts|{}", T::NAME), "{}: MIN={} MAX={} default={}", T::NAME, T::min_const().getw(), T::max_const().getw(), T::default().getw());
    }
}

pub fn run_c05(chk: &Check, tier: Tier) {
    chk.rule("every conversion into and out of each restricted integer type judged by reference arithmetic on (sign, u128 magnitude): accepted iff in range and value preserved; parsing against a reference recogniser '+'? digit+ with value in range over all strings of a 14-symbol alphabet up to length 4 (6 thorough), all 7-bit ASCII strings up to length 3 (4 thorough), every Unicode scalar value alone / before / after a digit, plus leading-zero/boundary numerals and every numeral up to 1 100 000; Display prints the decimal value and parse(display(v)) == v for every value, also under twelve formatter flag combinations (padding, sign, zero fill, precision); cmp/eq/hash agree with the integers for all pairs (U14: neighbourhoods in quick, all pairs in thorough). non-trivial = distinct (operation,input) cases whose input is IN range, i.e. whose value must be preserved");
    let cnt = Counters { evals: AtomicU64::new(0), out_of_range_inputs: AtomicU64::new(0), in_range_inputs: AtomicU64::new(0) };
    conversions(chk, "C05", tier, &cnt);
    parsing(chk, "C05", tier, &cnt);
    check_display::<U4>(chk, &cnt);
    check_display::<U7>(chk, &cnt);
    check_display::<U14>(chk, &cnt);
    check_display::<Channel>(chk, &cnt);
    check_display::<KeyNumber>(chk, &cnt);
    check_display::<ControllerNumber>(chk, &cnt);
    check_order::<U4>(chk, tier, &cnt);
    check_order::<U7>(chk, tier, &cnt);
    check_order::<Channel>(chk, tier, &cnt);
    check_order::<KeyNumber>(chk, tier, &cnt);
    check_order::<ControllerNumber>(chk, tier, &cnt);
    check_order::<U14>(chk, tier, &cnt);
    chk.add_eval(cnt.evals.load(Ordering::Relaxed));
    chk.add_nontrivial(cnt.in_range_inputs.load(Ordering::Relaxed));
    chk.sample(json!({"op": "\"+0127\".parse::<U7>()", "expected": "Ok(127)"}));
    chk.sample(json!({"op": "\"0000000128\".parse::<U7>()", "expected": "Err"}));
    chk.sample(json!({"op": "i128::from(U14(16383))", "expected": 16383}));
    chk.sample(json!({"op": "U7::try_from(-128i16)", "expected": "Err"}));
}
