//! C15: channel isolation. For a pair of channels {a, b}: one real scanner M receives the whole
//! interleaved stream, two real scanners A and B receive only a's resp. b's inputs (and all resets
//! and time). Explored to a fixpoint; on every transition what M reports for a channel must be
//! what the solo scanner reports, with that channel.
#![allow(dead_code)]
use crate::midi::*;
use crate::scan::*;
use serde_json::json;
use xs::{engine, h64, Check, Limits, Step, System, Tier, Violation};

#[derive(Clone, PartialEq, Debug)]
pub enum IAct {
    /// Control Change on channel slot (0 = a, 1 = b, 2 = third), controller, value
    Cc(u8, u8, u8),
    /// system message (status, d1, d2), shown to M only
    Sys(u8, u8, u8),
    Poll(u8),
    Tick,
    /// long pause (ms)
    Pause(u64),
    Reset,
    /// 65536 x (a message on the third channel, reset): wraps 16-bit reset generation counters
    /// even when resets without intervening traffic are skipped
    ResetStorm,
    /// a complete message for one of the STANDARDISED registered parameter numbers on channel slot
    /// (index into SPECIALS): code that gives such a number a meaning of its own (MPE configuration
    /// on the manager channels 0 / 15, the RPN null function) may reach across channels
    Special(u8, u8),
}

/// (label, Control Change sequence): MPE Configuration Message with the largest zone, the RPN null
/// function, pitch bend sensitivity
pub const SPECIALS: [(&str, [(u8, u8); 3]); 3] = [
    ("RPN 6 (MPE configuration) = 15", [(101, 0), (100, 6), (6, 15)]),
    ("RPN null, then a data entry", [(101, 127), (100, 127), (6, 1)]),
    ("RPN 0 (pitch bend sensitivity) = 2", [(101, 0), (100, 0), (6, 2)]),
];

pub struct IsoState<S: Scanner> {
    pub m: S,
    pub a: S,
    pub b: S,
    /// solo scanner of the third channel (only compared in `triple` mode)
    pub c: S,
    pub now: u64,
}
impl<S: Scanner> Clone for IsoState<S> {
    fn clone(&self) -> Self {
        IsoState { m: self.m, a: self.a, b: self.b, c: self.c, now: self.now }
    }
}

pub struct IsoSys<S: Scanner> {
    pub pid: &'static str,
    pub chans: [u8; 3],
    /// three simultaneously active channels, each compared with its own solo scanner
    pub triple: bool,
    /// offer the reset storm action
    pub storm: bool,
    /// judge `reset() == new()` on the multi-channel scanner after every reset (reported under C17)
    pub check_reset: bool,
    pub timeout: u64,
    /// milliseconds per `Tick` (1 unless a long timeout is explored on a coarse clock)
    pub tick_ms: u64,
    /// sub-millisecond mode: (timeout in ns, tick length in ns). `now` then counts these ticks, Tick
    /// advances by one, the long pauses are not offered
    pub fine: Option<(u64, u64)>,
    pub cap: u64,
    pub ctrls: Vec<u8>,
    pub sys_msgs: Vec<(u8, u8, u8)>,
    /// (slot, index into SPECIALS) offered within one step of the initial state
    pub specials: Vec<(u8, u8)>,
    _p: std::marker::PhantomData<S>,
}

impl<S: Scanner> IsoSys<S> {
    pub fn new(a: u8, b: u8, timeout: u64, thorough: bool) -> Self {
        let third = (0..16u8).find(|c| *c != a && *c != b && (*c & 7) != (a & 7) && (*c & 7) != (b & 7)).unwrap_or_else(|| (0..16u8).find(|c| *c != a && *c != b).unwrap());
        // thorough: every (N)RPN controller; quick: one kind (non-registered) and increment only for the
        // polling scanner, whose product is by far the largest (isolation slips are indexing slips,
        // not per-channel logic)
        let ctrls: Vec<u8> = if S::contributes(0) {
            vec![0, 1, 31, 32, 33, 63]
        } else if S::POLLS && !thorough {
            vec![98, 99, 38, 6, 96]
        } else {
            vec![98, 99, 100, 101, 38, 6, 96, 97]
        };
        let mut sys_msgs = Vec::new();
        let stats: Vec<u8> = if thorough { (0xF0..=0xFFu8).collect() } else { vec![0xF0, 0xF1, 0xF2, 0xF3, 0xF7, 0xF8, 0xFE, 0xFF] };
        for st in stats {
            if S::contributes(0) {
                sys_msgs.push((st, 1, 33));
                sys_msgs.push((st, 33, 1));
            } else {
                sys_msgs.push((st, 6, 38));
                sys_msgs.push((st, 99, 98));
                if thorough {
                    sys_msgs.push((st, 96, 101));
                }
            }
        }
        IsoSys {
            pid: "C15",
            chans: [a, b, third],
            triple: false,
            storm: false,
            check_reset: false,
            timeout,
            tick_ms: 1,
            fine: None,
            cap: crate::iso::cap_for(timeout),
            ctrls,
            sys_msgs,
            specials: Vec::new(),
            _p: std::marker::PhantomData,
        }
    }
    fn vio(&self, rule: &str, cls: &str, detail: impl FnOnce() -> String) -> Violation {
        Violation::lazy(rule, format!("C15/{}/{}/{}", S::NAME, rule, cls), detail)
    }
    fn clk(&self, now: u64) {
        match self.fine {
            Some((_, tick_ns)) => set_clock_ticks(now, tick_ns),
            None => set_clock(now),
        }
    }
    fn mk(&self) -> S {
        match self.fine {
            Some((timeout_ns, _)) => S::make_ns(timeout_ns),
            None => S::make(self.timeout),
        }
    }
    /// sub-millisecond timeout on a fine clock (cap in ticks)
    pub fn with_fine(mut self, timeout_ns: u64, tick_ns: u64) -> Self {
        self.fine = Some((timeout_ns, tick_ns));
        self.tick_ms = 1;
        let t_ticks = (timeout_ns + tick_ns - 1) / tick_ns;
        self.timeout = t_ticks;
        self.cap = crate::iso::cap_for(t_ticks);
        self
    }
}

pub fn cap_for(timeout: u64) -> u64 {
    if timeout >= (1 << 40) {
        3
    } else {
        2 * timeout + 2
    }
}

impl<S: Scanner> System for IsoSys<S> {
    type State = IsoState<S>;
    type Action = IAct;
    type Key = (u128, u128, u128, u128);

    fn pid(&self) -> String {
        self.pid.to_string()
    }
    fn name(&self) -> String {
        format!("{} isolation product [a={}, b={}, third={}{}, timeout={}ms, tick={}ms{}, {} controllers, {} system messages]", S::NAME, self.chans[0], self.chans[1], self.chans[2], if self.triple { " (all three compared with solo scanners)" } else { " (multi-channel scanner only)" }, if self.timeout >= (1 << 40) { "inf".to_string() } else { self.timeout.to_string() }, self.tick_ms, match self.fine { Some((t, k)) => format!(" (fine clock: timeout {} ns, tick {} ns)", t, k), None => String::new() }, self.ctrls.len(), self.sys_msgs.len())
    }
    fn init(&self) -> IsoState<S> {
        self.clk(0);
        IsoState { m: self.mk(), a: self.mk(), b: self.mk(), c: self.mk(), now: 0 }
    }
    fn actions_at(&self, s: &IsoState<S>, depth: u32, out: &mut Vec<IAct>) {
        self.actions(s, out);
        if self.storm && depth <= STORM_DEPTH + 2 {
            out.push(IAct::ResetStorm);
        }
        if depth <= 1 {
            for &(slot, k) in &self.specials {
                out.push(IAct::Special(slot, k));
            }
        }
        if S::POLLS && depth <= crate::polling_pause_depth() && self.fine.is_none() {
            for p in [(1u64 << 32) - 2, 1 << 32] {
                out.push(IAct::Pause(p));
            }
        }
    }
    fn actions(&self, _s: &IsoState<S>, out: &mut Vec<IAct>) {
        for slot in 0..3u8 {
            for &c in &self.ctrls {
                // a one-value domain per channel makes leakage visible in values
                out.push(IAct::Cc(slot, c, slot + 1));
            }
        }
        for &(s, a, b) in &self.sys_msgs {
            out.push(IAct::Sys(s, a, b));
        }
        out.push(IAct::Reset);
        if S::POLLS {

            out.push(IAct::Poll(0));
            out.push(IAct::Poll(1));
            out.push(IAct::Poll(2));
            out.push(IAct::Tick);
        }
    }
    fn step(&self, s: &IsoState<S>, act: &IAct) -> Step<IsoState<S>> {
        let mut v = Vec::new();
        let mut n = s.clone();
        self.clk(s.now);
        let mut obs = 0u64;
        match act {
            IAct::Cc(slot, ctrl, val) => {
                let c = self.chans[*slot as usize];
                let msg = cc(c, *ctrl, *val);
                let om = n.m.feed_msg(&msg);
                for t in om.iter().flatten() {
                    if t[0] != c as u32 {
                        v.push(self.vio("report-carries-triggering-channel", "feed", || format!("feeding CC #{} ={} on channel {} made the multi-channel scanner report a message for channel {}: {:?}", ctrl, val, c, t[0], t)));
                    }
                }
                if *slot < 2 || self.triple {
                    let solo = match *slot {
                        0 => &mut n.a,
                        1 => &mut n.b,
                        _ => &mut n.c,
                    };
                    self.clk(s.now);
                    let os = solo.feed_msg(&msg);
                    if os != om {
                        v.push(self.vio("same-as-solo-scanner", "feed", || format!("interleaved stream on channels {:?}: feeding CC #{} ={} on channel {} returned {:?}; a scanner fed only channel {}'s inputs returned {:?}", &self.chans, ctrl, val, c, om, c, os)));
                    }
                }
                if om[0].is_some() || om[1].is_some() {
                    obs = h64(&(c, om));
                }
            }
            IAct::Sys(st, a, b) => {
                let om = n.m.feed_msg(&raw(*st, *a, *b));
                if om[0].is_some() || om[1].is_some() {
                    v.push(self.vio("system-message-reports-nothing", &format!("{:02X}", st), || format!("system message ({:#04X},{},{}) made the scanner report {:?}", st, a, b, om)));
                }
            }
            IAct::Poll(slot) => {
                let c = self.chans[*slot as usize];
                let om = n.m.poll_ch(c);
                if let Some(t) = &om {
                    if t[0] != c as u32 {
                        v.push(self.vio("report-carries-triggering-channel", "poll", || format!("poll({}) returned a message for channel {}: {:?}", c, t[0], t)));
                    }
                }
                if *slot < 2 || self.triple {
                    let solo = match *slot {
                        0 => &mut n.a,
                        1 => &mut n.b,
                        _ => &mut n.c,
                    };
                    self.clk(s.now);
                    let os = solo.poll_ch(c);
                    if os != om {
                        v.push(self.vio("same-as-solo-scanner", "poll", || format!("interleaved stream on channels {:?}: poll({}) returned {:?}; a scanner fed only channel {}'s inputs returned {:?}", &self.chans, c, om, c, os)));
                    }
                }
                if let Some(t) = om {
                    obs = h64(&("poll", c, t));
                }
            }
            IAct::Special(slot, k) => {
                let c = self.chans[*slot as usize];
                for &(ctrl, val) in SPECIALS[*k as usize].1.iter() {
                    let msg = cc(c, ctrl, val);
                    self.clk(s.now);
                    let om = n.m.feed_msg(&msg);
                    let solo = if *slot == 0 { &mut n.a } else { &mut n.b };
                    self.clk(s.now);
                    let os = solo.feed_msg(&msg);
                    if os != om {
                        v.push(self.vio("same-as-solo-scanner", "feed-standardised-rpn", || format!("interleaved stream on channels {:?}: within {} on channel {}, CC #{} ={} returned {:?}; a scanner fed only channel {}'s inputs returned {:?}", &self.chans, SPECIALS[*k as usize].0, c, ctrl, val, om, c, os)));
                    }
                }
            }
            IAct::Tick => n.now += self.tick_ms,
            IAct::Pause(p) => n.now += *p,
            IAct::Reset => {
                n.m.reset_all();
                n.a.reset_all();
                n.b.reset_all();
                n.c.reset_all();
                if self.check_reset {
                    let fresh = self.mk();
                    if n.m != fresh {
                        v.push(Violation::lazy("reset-equals-new", format!("C17/{}/reset-equals-new/multi-channel", S::NAME), || format!("after traffic on channels {:?} and reset() the scanner is not == a new one: {:?}", &self.chans, n.m)));
                    }
                }
            }
            IAct::ResetStorm => {
                let third = raw(0x90 | self.chans[2], 1, 1);
                for _ in 0..65536u32 {
                    n.m.feed_msg(&third);
                    n.m.reset_all();
                }
                n.a.reset_all();
                n.b.reset_all();
                n.c.reset_all();
            }
        }
        Step { strict: false, next: Some(n), obs, violations: v }
    }
    fn key(&self, s: &IsoState<S>) -> (u128, u128, u128, u128) {
        (debug_fp(&s.m, s.now, self.cap), debug_fp(&s.a, s.now, self.cap), debug_fp(&s.b, s.now, self.cap), if self.triple { debug_fp(&s.c, s.now, self.cap) } else { 0 })
    }
    fn n_classes(&self) -> usize {
        7
    }
    fn class_name(&self, i: usize) -> String {
        ["feed-on-a", "feed-on-b", "feed-on-third-channel", "feed-system-message", "poll", "tick-1ms", "reset"][i].to_string()
    }
    fn class_of(&self, a: &IAct) -> usize {
        match a {
            IAct::Cc(0, ..) => 0,
            IAct::Cc(1, ..) => 1,
            IAct::Cc(..) => 2,
            IAct::Special(0, _) => 0,
            IAct::Special(..) => 1,
            IAct::Sys(..) => 3,
            IAct::Poll(_) => 4,
            IAct::Tick | IAct::Pause(_) => 5,
            IAct::Reset | IAct::ResetStorm => 6,
        }
    }
    fn render(&self, a: &IAct) -> String {
        match a {
            IAct::Cc(slot, c, v) => format!("cc:{}:{}:{}", self.chans[*slot as usize], c, v),
            IAct::Sys(s, a, b) => format!("raw:{}:{}:{}", s, a, b),
            IAct::Poll(slot) => format!("poll:{}", self.chans[*slot as usize]),
            IAct::Tick => "tick".to_string(),
            IAct::Pause(p) => format!("pause:{}", p),
            IAct::Reset => "reset".to_string(),
            IAct::ResetStorm => "resetstorm".to_string(),
            IAct::Special(slot, k) => format!("special:{}:{}", self.chans[*slot as usize], k),
        }
    }
    fn rust_preamble(&self) -> String {
        format!("// {} created with new() (polling: new(Duration::from_millis({}))); compare with a second scanner fed only one channel's inputs\n    let mut clock = 0u64;", S::NAME, self.timeout)
    }
    fn rust_line(&self, a: &IAct) -> String {
        match a {
            IAct::Cc(slot, c, v) => format!("println!(\"{{:?}}\", scanner.feed(&helgoboss_midi::test_util::control_change({}, {}, {})));", self.chans[*slot as usize], c, v),
            IAct::Sys(s, a, b) => format!("println!(\"{{:?}}\", scanner.feed(&helgoboss_midi::test_util::short({}, {}, {})));", s, a, b),
            IAct::Poll(slot) => format!("println!(\"{{:?}}\", scanner.poll(helgoboss_midi::test_util::channel({})));", self.chans[*slot as usize]),
            IAct::Tick => match self.fine {
                Some((_, tick_ns)) => format!("clock += 1; helgoboss_midi::verif_hooks::set_now_ticks(clock, {});", tick_ns),
                None => format!("clock += {}; helgoboss_midi::verif_hooks::set_now_millis(clock);", self.tick_ms),
            },
            IAct::Special(slot, k) => format!("for (n, v) in {:?} {{ println!(\"{{:?}}\", scanner.feed(&helgoboss_midi::test_util::control_change({}, n, v))); }} // {}", SPECIALS[*k as usize].1, self.chans[*slot as usize], SPECIALS[*k as usize].0),
            IAct::Pause(p) => format!("clock += {}; helgoboss_midi::verif_hooks::set_now_millis(clock);", p),
            IAct::Reset => "scanner.reset();".to_string(),
            IAct::ResetStorm => format!("for _ in 0..65536 {{ scanner.feed(&helgoboss_midi::test_util::note_on({}, 1, 1)); scanner.reset(); }}", self.chans[2]),
        }
    }
}

pub fn pairs(tier: Tier) -> Vec<(u8, u8)> {
    let mut v = Vec::new();
    if tier.thorough() {
        for a in 0..16u8 {
            for b in (a + 1)..16 {
                v.push((a, b));
            }
        }
    } else {
        for c in 0..8u8 {
            v.push((c, c + 8));
        }
        v.extend([(0, 1), (7, 8), (0, 15), (14, 15), (3, 12), (5, 6)]);
    }
    v
}

/// Three simultaneously active channels (each compared with a solo scanner): a fault that needs
/// three particular channels at once - e.g. state shared by index arithmetic over more than two
/// slots - is invisible to the pair products.
fn run_triples<S: Scanner>(chk: &Check, tier: Tier, timeout: u64) {
    let triples: Vec<(u8, u8, u8)> = if tier.thorough() { vec![(0, 1, 2), (0, 8, 15), (5, 10, 15), (7, 8, 9), (3, 6, 12), (13, 14, 15)] } else { vec![(0, 8, 15), (7, 8, 9)] };
    for (a, b, c) in triples {
        let mut sys = IsoSys::<S>::new(a, b, timeout, false);
        sys.chans[2] = c;
        sys.triple = true;
        sys.storm = true;
        if S::POLLS {
            // keep the triple product small: number selection, data entry MSB/LSB only
            sys.ctrls = vec![98, 99, 38, 6];
            sys.sys_msgs.truncate(2);
        }
        let out = xs::explore(&sys, &Limits::default());
        engine::record(chk, &sys, &out, None);
    }
}

fn run_for<S: Scanner>(chk: &Check, tier: Tier, timeouts: &[u64]) {
    for &(a, b) in &pairs(tier) {
        for &t in timeouts {
            let mut sys = IsoSys::<S>::new(a, b, t, tier.thorough());
            sys.storm = (a, b) == pairs(tier)[0];
            if sys.storm && !S::contributes(0) {
                // standardised RPNs on the pair (0, 8): channel 0 is an MPE manager channel. The polling
                // product is large, so the quick tier offers only the MPE configuration message there.
                sys.specials = if S::POLLS && !tier.thorough() { vec![(0, 0)] } else { vec![(0, 0), (0, 1), (0, 2), (1, 0), (1, 1), (1, 2)] };
            }
            let out = xs::explore(&sys, &Limits::default());
            engine::record(chk, &sys, &out, None);
        }
    }
}

/// Supplement (SAMPLING, not the deciding step): seeded random interleavings over the FULL alphabet
/// on all 16 channels at once - one multi-channel scanner against 16 solo scanners. Aimed at what the
/// exhaustive products cannot reach: four or more simultaneously active channels and arbitrary byte
/// values. A difference found here is a real execution of the real code and is reported like any
/// other violation (the artefact replays it from the seed).
fn random_16ch<S: Scanner>(chk: &Check, seed: u64, steps: u64, timeout: u64) -> u64 {
    let mut x = seed ^ 0x9E3779B97F4A7C15 ^ (S::NAME.len() as u64) << 32;
    let mut rnd = move || {
        x ^= x << 13;
        x ^= x >> 7;
        x ^= x << 17;
        x
    };
    let mut now = 0u64;
    set_clock(0);
    let mut m = S::make(timeout);
    let mut solo: Vec<S> = (0..16).map(|_| S::make(timeout)).collect();
    let ctrls: Vec<u8> = (0..128u8).filter(|c| S::contributes(*c)).collect();
    for k in 0..steps {
        let r = rnd();
        let c = (r & 15) as u8;
        set_clock(now);
        match (r >> 4) % 16 {
            0 => {
                // time passes
                now += [1u64, 1, 2, 3, 1 << 20, (1 << 32) - 1][((r >> 8) % 6) as usize];
            }
            1 if S::POLLS => {
                let a = m.poll_ch(c);
                set_clock(now);
                let b = solo[c as usize].poll_ch(c);
                if a != b {
                    chk.violate(Violation::new("same-as-solo-scanner", format!("C15/{}/same-as-solo-scanner/random-16-channels", S::NAME), format!("seed {} step {}: poll({}) returned {:?} in the 16-channel stream, {:?} in a scanner fed only that channel", seed, k, c, a, b)).with_case(format!("random16|{}|{}|{}", S::NAME, seed, k)));
                    return k;
                }
            }
            2 => {
                if (r >> 8) % 64 == 0 {
                    m.reset_all();
                    for s in solo.iter_mut() {
                        s.reset_all();
                    }
                }
            }
            3 => {
                // system message or other channel message with suggestive data bytes
                let st = if (r >> 8) & 1 == 0 { 0xF0 | ((r >> 9) & 15) as u8 } else { [0x80u8, 0x90, 0xA0, 0xC0, 0xD0, 0xE0][((r >> 9) % 6) as usize] | c };
                let d1 = ctrls[((r >> 16) as usize) % ctrls.len()];
                let msg = raw(st, d1, ((r >> 24) & 127) as u8);
                let a = m.feed_msg(&msg);
                if st < 0xF0 {
                    set_clock(now);
                    let b = solo[c as usize].feed_msg(&msg);
                    if a != b {
                        chk.violate(Violation::new("same-as-solo-scanner", format!("C15/{}/same-as-solo-scanner/random-16-channels", S::NAME), format!("seed {} step {}: feeding ({:#04X},{},..) returned {:?} vs solo {:?}", seed, k, st, d1, a, b)).with_case(format!("random16|{}|{}|{}", S::NAME, seed, k)));
                        return k;
                    }
                } else if a[0].is_some() || a[1].is_some() {
                    chk.violate(Violation::new("system-message-reports-nothing", format!("C15/{}/system-message-reports-nothing/random-16-channels", S::NAME), format!("seed {} step {}: system message ({:#04X},{},..) reported {:?}", seed, k, st, d1, a)).with_case(format!("random16|{}|{}|{}", S::NAME, seed, k)));
                    return k;
                }
            }
            _ => {
                let ctrl = ctrls[((r >> 8) as usize) % ctrls.len()];
                let val = ((r >> 20) & 127) as u8;
                let msg = cc(c, ctrl, val);
                let a = m.feed_msg(&msg);
                set_clock(now);
                let b = solo[c as usize].feed_msg(&msg);
                if a != b || a.iter().flatten().any(|t| t[0] != c as u32) {
                    chk.violate(Violation::new("same-as-solo-scanner", format!("C15/{}/same-as-solo-scanner/random-16-channels", S::NAME), format!("seed {} step {}: feeding CC #{} ={} on channel {} returned {:?} in the 16-channel stream, {:?} in a scanner fed only that channel", seed, k, ctrl, val, c, a, b)).with_case(format!("random16|{}|{}|{}", S::NAME, seed, k)));
                    return k;
                }
            }
        }
    }
    steps
}

pub fn run_c15(chk: &Check, tier: Tier) {
    chk.rule("for each unordered channel pair {a,b} (quick: the 8 pairs {c,c+8} plus 6 adjacent/extreme pairs; thorough: all 120) and each of the three scanners: reachability fixpoint of the triple (M fed everything, A fed only a, B fed only b) under contributing Control Changes with a distinct value per channel, system messages F0-FF whose data bytes look like (N)RPN/14-bit traffic (shown to M only), traffic and polls on a third channel (M only), polls of a and b, 1 ms ticks, reset; on every transition M's report for a channel equals the solo scanner's and carries that channel; system messages report nothing. The product is symmetric in a and b, so unordered pairs cover ordered ones. In addition, for a few channel TRIPLES (quick: (0,8,15) and (7,8,9); thorough: six) the product of M with three solo scanners, all three channels active at once");
    chk.assume("per-channel byte domain of one value (leakage shows as a foreign value); polling scanner with timeout 2 ms (and 0 ms in the thorough tier), plus one pair (eight in thorough) with a timeout of 1 s on a 250 ms clock and one with 1.5 ms on a 0.5 ms clock; complete messages for three standardised RPNs (MPE configuration, null, pitch bend sensitivity) are offered as single actions within one step of the initial state in the products of the pair (0, 8) (polling scanner, quick tier: the MPE configuration message on channel 0 only)");
    run_for::<helgoboss_midi::ControlChange14BitMessageScanner>(chk, tier, &[0]);
    run_for::<helgoboss_midi::ParameterNumberMessageScanner>(chk, tier, &[0]);
    #[cfg(feature = "polling")]
    run_for::<helgoboss_midi::PollingParameterNumberMessageScanner>(chk, tier, if tier.thorough() { &[2, 0] } else { &[2] });
    #[cfg(feature = "polling")]
    {
        // a 1.5 ms timeout on half-millisecond ticks: two channels whose arrivals are a fraction of a
        // millisecond apart (a scanner-wide time base in whole milliseconds shows)
        for &(a, b) in pairs(tier).iter().take(if tier.thorough() { 8 } else { 1 }) {
            let sys = IsoSys::<helgoboss_midi::PollingParameterNumberMessageScanner>::new(a, b, 2, false).with_fine(1_500_000, 500_000);
            let out = xs::explore(&sys, &Limits::default());
            engine::record(chk, &sys, &out, None);
        }
        // a timeout of one second (where whole-second shortcuts start to apply) on a 250 ms clock
        for &(a, b) in pairs(tier).iter().take(if tier.thorough() { 8 } else { 1 }) {
            let mut sys = IsoSys::<helgoboss_midi::PollingParameterNumberMessageScanner>::new(a, b, 1000, false);
            sys.tick_ms = 250;
            let out = xs::explore(&sys, &Limits::default());
            engine::record(chk, &sys, &out, None);
        }
    }
    run_triples::<helgoboss_midi::ControlChange14BitMessageScanner>(chk, tier, 0);
    run_triples::<helgoboss_midi::ParameterNumberMessageScanner>(chk, tier, 0);
    #[cfg(feature = "polling")]
    run_triples::<helgoboss_midi::PollingParameterNumberMessageScanner>(chk, tier, 2);
    // supplementary sampling (labelled; never the deciding step)
    let steps: u64 = if tier.thorough() { 20_000_000 } else { 1_000_000 };
    let mut done = 0u64;
    done += random_16ch::<helgoboss_midi::ControlChange14BitMessageScanner>(chk, chk.seed, steps, 0);
    done += random_16ch::<helgoboss_midi::ParameterNumberMessageScanner>(chk, chk.seed, steps, 0);
    #[cfg(feature = "polling")]
    {
        done += random_16ch::<helgoboss_midi::PollingParameterNumberMessageScanner>(chk, chk.seed, steps, 2);
        done += random_16ch::<helgoboss_midi::PollingParameterNumberMessageScanner>(chk, chk.seed.wrapping_add(1), steps, 0);
    }
    chk.set("supplementary_sampling", json!({"what": "seeded random 16-channel interleavings over the full alphabet, multi-channel scanner vs 16 solo scanners (SAMPLING; not part of the exhaustive claim)", "seed": chk.seed, "steps": done}));
    chk.sample(json!({"pair": [5, 13], "interleaving": ["cc ch5 #99 =1", "cc ch13 #99 =2", "cc ch5 #98 =1", "F2 6 38 (system)", "cc ch13 #6 =2", "cc ch5 #6 =1", "tick", "tick", "poll(5) -> NRPN-7bit(ch 5, 129, 1) in both M and the solo scanner"]}));
}
