//! The polling (N)RPN scanner under a mock clock: product with a HISTORY OBSERVER (C13, C14; also
//! reused by C03, C16, C17) explored to a fixpoint by `xs`.
//!
//! The observer records only what was actually fed (number halves and kind, most recent
//! controller-6 / controller-38 bytes, what is pending since when). Every rule is a clause of
//! the C13 / C14 statements phrased over that record, read literally, so that a differently
//! structured implementation that respects the statements passes.
#![allow(dead_code)]
use crate::midi::*;
use crate::scan::*;
use core::time::Duration;
use helgoboss_midi::verif_hooks::set_now_ticks_advancing;
use helgoboss_midi::*;
use std::sync::atomic::{AtomicBool, Ordering};
use xs::{h64, Step, System, Violation};

pub const T_INF: u64 = 1 << 40;
pub const PAUSE_DEPTH: u32 = 9;

#[derive(Clone, Copy, PartialEq, Eq, Hash, Debug, Default)]
pub struct Obs {
    pub msb: Option<u8>,
    pub lsb: Option<u8>,
    pub reg: bool,
    /// most recent controller-6 byte ever fed on the channel, and whether it is still
    /// "fresh" (not yet reported as 7-bit, not yet part of a 14-bit message)
    pub last6: Option<(u8, bool)>,
    /// most recent controller-38 byte ever fed on the channel
    pub last38: Option<u8>,
    /// pending data entry MSB: fed with a complete number, not reported by its own feed; (byte, fed at)
    pub owed: Option<(u8, u64)>,
    /// unpaired data entry LSB: fed with a complete number, its feed reported nothing; fed at
    pub lsbp: Option<u64>,
    /// an unpaired LSB was dropped by a poll after the timeout and no contributing message
    /// arrived since
    pub lsb_dropped: bool,
}

impl Obs {
    pub fn number(&self) -> Option<u32> {
        match (self.msb, self.lsb) {
            (Some(a), Some(b)) => Some(a as u32 * 128 + b as u32),
            _ => None,
        }
    }
}

#[derive(Clone, Copy, PartialEq, Eq, Hash, Debug)]
pub struct ObsKey {
    o: Obs,
}

#[derive(Clone, Copy, Debug, Default)]
pub struct PReport {
    pub c13: bool,
    pub c14: bool,
    pub transparency: bool,
    pub reset: bool,
    pub dup: bool,
    pub repr: bool,
    /// C18: a heap allocation inside a real feed/poll/reset call made by this transition
    pub alloc: bool,
}

/// One element of a pumped cycle.
#[derive(Clone, Copy, PartialEq, Debug)]
pub enum PumpOp {
    Cc(u8, u8),
    Poll,
    Tick,
}

#[derive(Clone, PartialEq, Debug)]
pub enum PoAct {
    /// a short cycle of operations repeated `pump_reps` times in one step, every operation judged
    /// (index into `pump_cycles`): counters that leak or wrap after hundreds of rounds
    Pump(u16),
    Cc(u8, u8),
    CcProbe(u8, u8),
    /// non-contributing message, expanded (index into `others`)
    Other(u32),
    /// non-contributing message, probe only (index into `noncontrib`)
    Transparent(u32),
    Poll,
    Tick,
    /// a long pause (index into `pauses`: 2^16-2, 2^16, 2^20, 2^32-2, 2^32 ms) in one step: the
    /// representative of the saturated-age states becomes a really old one (thresholds far beyond
    /// CAP are exercised), and elapsed-time arithmetic that truncates to 16 or 32 bits wraps
    Pause(u8),
    /// many resets in one step (index into `storms`): counters used to implement a lazy reset wrap
    ResetStorm(u8),
    /// a non-contributing message on every one of the 16 channels
    TouchAll,
    /// CC 99 = 1 on each of the 15 other channels: many channels hold progress at once
    ProgressAll,
    /// fault injection (probe): a message whose n-th getter call panics, fed under catch_unwind
    AbortProbe(u8, u8),
    /// selects the registered parameter number (0, k) - CC 101 = 0, CC 100 = k - in one step: the
    /// standardised RPNs (k = 2..6), which a byte domain of {0, 1, 127} never forms but code may treat
    /// specially
    SelectRpn(u8),
    Reset,
    ResetProbe,
}

#[derive(Clone)]
pub struct PoState {
    pub sc: PollingParameterNumberMessageScanner,
    pub now: u64,
    pub ob: Obs,
}

pub struct PollSys {
    pub pid: &'static str,
    pub ch: u8,
    /// timeout in whole milliseconds, rounded up (used for CAP and for choosing probe instants)
    pub timeout: u64,
    /// the exact timeout in microseconds (a timeout need not be a whole number of milliseconds)
    pub timeout_us: u64,
    /// nanoseconds on top of `timeout_us` (a timeout need not be a whole number of microseconds either)
    pub timeout_sub_ns: u64,
    /// length of one clock tick in nanoseconds: 1 ms normally; the explorations of timeouts that are
    /// not whole milliseconds use a finer tick, so that polls fall between whole milliseconds and
    /// exactly on the timeout. `now`, `timeout`, `cap`, ages and pauses are all in ticks.
    pub tick_ns: u64,
    /// ticks by which the mock clock moves on after EVERY reading the scanner takes (0 normally):
    /// time passing *during* a call. Only used without an output oracle (C18: no panic, no
    /// allocation), because a call that reads the clock twice then sees two different instants.
    pub advance: u64,
    /// an astronomically long timeout given as a Duration (never expires within any explored age);
    /// chosen so that a conversion truncated to 32 or 64 bits aliases it to zero
    pub exotic: Option<(Duration, &'static str)>,
    pub cap: u64,
    /// long pauses offered as single actions (ms)
    pub pauses: Vec<u64>,
    /// reset storms offered as single actions: (number of resets, with traffic on another channel in between)
    pub storms: Vec<(u32, bool)>,
    /// pumped cycles (see `PoAct::Pump`) and the number of repetitions
    pub pump_cycles: Vec<Vec<PumpOp>>,
    pub pump_reps: u32,
    /// number of leading entries of `pump_cycles` (those of length <= 2) that are additionally
    /// offered with 70000 rounds from states within one step of the initial state (thorough tier):
    /// 16-bit counters driven by feeds or polls
    pub long_pumps: usize,
    pub alphabet: Vec<(u8, u8)>,
    pub probes: Vec<(u8, u8)>,
    pub others: Vec<(u8, u8, u8)>,
    pub noncontrib: Vec<(u8, u8, u8)>,
    pub report: PReport,
    pub reacted: Vec<AtomicBool>,
    /// second-step probing (see `do_feed`)
    pub deep_probes: bool,
    pub followup_values: Vec<u8>,
    pub deep_evals: std::sync::atomic::AtomicU64,
    /// LSBs k of the standardised RPNs (0, k) offered as `SelectRpn` within two steps of the initial state
    pub special_rpns: Vec<u8>,
}

/// messages fed through the panicking third-party type (status without channel, data bytes)
pub const ABORT_MSGS: [(u8, u8, u8); 6] = [(0xB0, 99, 1), (0xB0, 98, 1), (0xB0, 6, 1), (0xB0, 38, 1), (0xB0, 96, 1), (0x90, 1, 1)];

pub fn cap_for(timeout: u64, mult: u64) -> u64 {
    if timeout >= T_INF {
        3 * mult
    } else {
        mult * (2 * timeout + 2)
    }
}

pub fn scanner_fp(sc: &PollingParameterNumberMessageScanner, now: u64, cap: u64) -> u128 {
    debug_fp(sc, now, cap)
}

fn is_inc_dec(t: &Tup) -> bool {
    t[5] != 0
}
fn is_7bit_entry(t: &Tup) -> bool {
    t[5] == 0 && t[4] == 0
}
fn is_14bit(t: &Tup) -> bool {
    t[4] == 1
}

impl PollSys {
    pub fn new(pid: &'static str, ch: u8, timeout: u64, cap_mult: u64, values: &[u8], concretise: bool, report: PReport) -> PollSys {
        let mut alphabet = Vec::new();
        let mut probes = Vec::new();
        for &c in &[98u8, 99, 100, 101, 38, 6, 96, 97] {
            for &v in values {
                alphabet.push((c, v));
            }
            if concretise {
                for v in 0..128u8 {
                    if !values.contains(&v) {
                        probes.push((c, v));
                    }
                }
            }
        }
        PollSys {
            pid,
            ch,
            timeout,
            timeout_us: timeout.saturating_mul(1000),
            timeout_sub_ns: 0,
            tick_ns: 1_000_000,
            advance: 0,
            exotic: None,
            cap: cap_for(timeout, cap_mult),
            pauses: if WRAP16.load(Ordering::Relaxed) { vec![998, 1000, (1 << 16) - 2, 1 << 16, (1 << 20) + 100, (1 << 32) - 2, 1 << 32] } else { vec![998, 1000, (1 << 20) + 100, (1 << 32) - 2, 1 << 32] },
            storms: Vec::new(),
            pump_cycles: Vec::new(),
            pump_reps: 300,
            long_pumps: 0,
            alphabet,
            probes,
            others: noncontrib_small::<PollingParameterNumberMessageScanner>(ch),
            noncontrib: Vec::new(),
            report,
            reacted: (0..128).map(|_| AtomicBool::new(false)).collect(),
            deep_probes: false,
            followup_values: values.to_vec(),
            deep_evals: std::sync::atomic::AtomicU64::new(0),
            special_rpns: Vec::new(),
        }
    }

    pub fn new_scanner(&self) -> PollingParameterNumberMessageScanner {
        match self.exotic {
            Some((d, _)) => PollingParameterNumberMessageScanner::new(d),
            None => PollingParameterNumberMessageScanner::new(Duration::from_nanos(self.timeout_ns())),
        }
    }

    /// An astronomically long timeout (behaves as "infinite" for the oracle).
    pub fn with_exotic(mut self, d: Duration, label: &'static str) -> Self {
        self.timeout = T_INF;
        self.timeout_us = T_INF.saturating_mul(1000);
        self.cap = cap_for(T_INF, 1);
        self.exotic = Some((d, label));
        self
    }

    /// All cycles of length 1..=3 over {8 contributing controllers (value 1), poll, 1 ms tick}.
    pub fn with_pumps(mut self, max_len: usize) -> Self {
        let mut ops: Vec<PumpOp> = [98u8, 99, 100, 101, 38, 6, 96, 97].iter().map(|c| PumpOp::Cc(*c, 1)).collect();
        ops.push(PumpOp::Poll);
        ops.push(PumpOp::Tick);
        for a in &ops {
            self.pump_cycles.push(vec![*a]);
        }
        for a in &ops {
            for b in &ops {
                if a != b {
                    self.pump_cycles.push(vec![*a, *b]);
                }
            }
        }
        if max_len >= 3 {
            for a in &ops {
                for b in &ops {
                    for c in &ops {
                        if !(a == b && b == c) {
                            self.pump_cycles.push(vec![*a, *b, *c]);
                        }
                    }
                }
            }
        }
        self
    }

    fn pump(&self, s: &PoState, cycle: &[PumpOp], reps: u32) -> Step<PoState> {
        let mut cur = PoState { sc: s.sc, now: s.now, ob: s.ob };
        let mut v = Vec::new();
        'outer: for it in 0..reps {
            for op in cycle {
                let r = xs::report::with_details(|| match op {
                    PumpOp::Cc(c, val) => self.feed_core(&cur, 0xB0 | self.ch, *c, *val),
                    PumpOp::Poll => self.do_poll(&cur),
                    PumpOp::Tick => Step { strict: false, next: Some(PoState { sc: cur.sc, now: cur.now + 1, ob: cur.ob }), obs: 0, violations: Vec::new() },
                });
                if !r.violations.is_empty() {
                    for mut x in r.violations {
                        x.signature = format!("{}/pumped", x.signature);
                        x.detail = format!("in round {} of the pumped cycle {:?}, at {:?}: {}", it + 1, cycle, op, x.detail);
                        v.push(x);
                    }
                    break 'outer;
                }
                match r.next {
                    Some(n) => cur = n,
                    None => break 'outer,
                }
            }
        }
        Step { strict: true, next: if v.is_empty() { Some(cur) } else { None }, obs: 0, violations: v }
    }

    /// A timeout that is not a whole number of milliseconds.
    pub fn with_timeout_us(mut self, us: u64) -> Self {
        self.timeout_us = us;
        self.timeout = (us + 999) / 1000;
        self.cap = cap_for(self.timeout, 1);
        self
    }

    /// the exact timeout in nanoseconds
    pub fn timeout_ns(&self) -> u64 {
        self.timeout_us.saturating_mul(1000).saturating_add(self.timeout_sub_ns)
    }

    /// A timeout given in nanoseconds, on a clock whose tick is `tick_ns` nanoseconds.
    pub fn with_timeout_ns(mut self, ns: u64, tick_ns: u64) -> Self {
        assert!(self.exotic.is_none());
        self.timeout_us = ns / 1000;
        self.timeout_sub_ns = ns % 1000;
        self.tick_ns = tick_ns;
        self.timeout = (ns + tick_ns - 1) / tick_ns;
        self.cap = cap_for(self.timeout, 1);
        self.pauses = vec![(1 << 20) + 100];
        self
    }

    /// A finer clock: one tick = `tick_us` microseconds. Timeout, CAP and pauses are re-expressed in
    /// ticks; the wrap-around and whole-second pauses keep their meaning only on the millisecond
    /// clock, so only the plain long pause stays.
    pub fn with_tick_us(mut self, tick_us: u64) -> Self {
        assert!(self.timeout < T_INF && self.exotic.is_none());
        self.tick_ns = tick_us * 1000;
        self.timeout = (self.timeout_us + tick_us - 1) / tick_us;
        self.cap = cap_for(self.timeout, 1);
        self.pauses = vec![(1 << 20) + 100];
        self
    }

    fn clock(&self, ticks: u64) {
        set_now_ticks_advancing(ticks, self.tick_ns, self.advance);
    }

    /// renders a number of ticks as milliseconds
    fn ms(&self, ticks: u64) -> String {
        if self.tick_ns == 1_000_000 {
            format!("{}", ticks)
        } else {
            format!("{}", ticks as f64 * self.tick_ns as f64 / 1e6)
        }
    }

    /// has the timeout passed after `age` ticks?
    fn expired(&self, age: u64) -> bool {
        (age as u128) * (self.tick_ns as u128) >= self.timeout_ns() as u128
    }

    fn v13(&self, rule: &str, cls: &str, detail: impl FnOnce() -> String) -> Violation {
        Violation::lazy(rule, format!("C13/{}/{}/T={}", rule, cls, self.tname()), detail)
    }
    fn v14(&self, rule: &str, cls: &str, detail: impl FnOnce() -> String) -> Violation {
        Violation::lazy(rule, format!("C14/{}/{}/T={}", rule, cls, self.tname()), detail)
    }
    fn vx(&self, rule: &str, cls: &str, detail: impl FnOnce() -> String) -> Violation {
        Violation::lazy(rule, format!("{}/PollingParameterNumberMessageScanner/{}/{}/T={}", self.pid, rule, cls, self.tname()), detail)
    }
    pub fn tname(&self) -> String {
        if let Some((_, label)) = self.exotic {
            label.to_string()
        } else if self.timeout >= T_INF {
            "inf".to_string()
        } else if self.timeout_sub_ns != 0 {
            format!("{}ns", self.timeout_ns())
        } else if self.timeout_us % 1000 != 0 {
            format!("{}us", self.timeout_us)
        } else {
            format!("{}ms", self.timeout)
        }
    }

    /// C14 content rules for one reported message. `ctrl`: the controller number of the
    /// triggering feed if it was a contributing Control Change, `None` for polls and other feeds.
    fn judge_content(&self, ob: &Obs, ctrl: Option<(u8, u8)>, t: &Tup, trigger: &str, v: &mut Vec<Violation>) {
        if t[0] != self.ch as u32 {
            v.push(self.v14("P1-channel-of-triggering-call", trigger, || format!("{} on channel {} reported {}", trigger, self.ch, pnm_str(t))));
        }
        match ob.number() {
            None => v.push(self.v14("P2-nothing-before-number-complete", trigger, || format!("{} reported {} although no complete parameter number was received since creation/reset (history record {:?})", trigger, pnm_str(t), ob))),
            Some(n) => {
                if t[1] != n || t[3] != ob.reg as u32 {
                    v.push(self.v14("P2-number-and-kind-from-latest-number-bytes", trigger, || format!("{} reported {}; the latest number bytes before the call give number {} registered={} (history record {:?})", trigger, pnm_str(t), n, ob.reg, ob)));
                }
            }
        }
        if t[4] == 1 && t[5] != 0 {
            v.push(self.v14("P5-14-bit-is-data-entry", trigger, || format!("{} reported an inconsistent message {:?}", trigger, t)));
        } else if is_inc_dec(t) {
            let ok = match ctrl {
                Some((96, val)) => t[5] == 1 && t[2] == val as u32,
                Some((97, val)) => t[5] == 2 && t[2] == val as u32,
                _ => false,
            };
            if !ok {
                v.push(self.v14("P3-inc-dec-from-current-message", trigger, || format!("{} reported {}", trigger, pnm_str(t))));
            }
        } else if is_7bit_entry(t) {
            match ob.last6 {
                Some((b, true)) if b as u32 == t[2] => {}
                Some((b, false)) if b as u32 == t[2] => v.push(self.v14("P4-7bit-not-reported-before", trigger, || format!("{} reported {} but the controller-6 byte {} was already reported as 7-bit or used in a 14-bit message", trigger, pnm_str(t), b))),
                other => v.push(self.v14("P4-7bit-value-is-latest-controller-6", trigger, || format!("{} reported {}; the most recent controller-6 byte before the call is {:?}", trigger, pnm_str(t), other))),
            }
        } else {
            // 14-bit data entry
            let l6 = match ctrl {
                Some((6, val)) => Some(val),
                _ => ob.last6.map(|x| x.0),
            };
            let l38 = match ctrl {
                Some((38, val)) => Some(val),
                _ => ob.last38,
            };
            match (l6, l38) {
                (Some(h), Some(l)) if t[2] == h as u32 * 128 + l as u32 => {}
                _ => v.push(self.v14("P5-14bit-from-latest-controller-6-and-38", trigger, || format!("{} reported {}; most recent controller-6 / controller-38 bytes up to this message are {:?} / {:?}", trigger, pnm_str(t), l6, l38))),
            }
        }
    }

    /// One real feed judged by the observer; always returns the successor.
    fn feed_core(&self, s: &PoState, st: u8, d1: u8, d2: u8) -> Step<PoState> {
        let mut v = Vec::new();
        self.clock(s.now);
        let mut sc = s.sc;
        let msg = raw(st, d1, d2);
        let out = sc.feed_msg(&msg);
        let ob = &s.ob;
        let contributing_cc = st == (0xB0 | self.ch) && matches!(d1, 6 | 38 | 96..=101);
        let ctrl = if contributing_cc { Some((d1, d2)) } else { None };
        let trigger = if contributing_cc { format!("feed(CC#{})", d1) } else if st & 0xF0 == 0xB0 { "feed(other CC)".to_string() } else { "feed(non-CC)".to_string() };
        if st & 0xF0 == 0xB0 && (out[0].is_some() || sc != s.sc) {
            self.reacted[d1 as usize].store(true, Ordering::Relaxed);
        }
        let mut nob = *ob;
        if self.report.c14 {
            for t in out.iter().flatten() {
                self.judge_content(ob, ctrl, t, &trigger, &mut v);
            }
            // P7
            if let Some(second) = &out[1] {
                let ok = matches!(d1, 96 | 97) && contributing_cc && out[0].map_or(false, |f| is_7bit_entry(&f)) && is_inc_dec(second) && ob.owed.is_some();
                if !ok {
                    v.push(self.v14("P7-two-messages-only-for-inc-dec-after-pending-msb", &trigger, || format!("{} returned [{:?}, {:?}] (pending MSB: {:?})", trigger, out[0].map(|t| pnm_str(&t)), pnm_str(second), ob.owed)));
                }
            }
            // 7-bit / 14-bit twice in one call
            if let (Some(a), Some(b)) = (&out[0], &out[1]) {
                if !is_inc_dec(a) && !is_inc_dec(b) {
                    v.push(self.v14("P4-7bit-not-reported-before", &trigger, || format!("{} returned two data entry messages {} and {}", trigger, pnm_str(a), pnm_str(b))));
                }
            }
            // P6: a pending MSB must be reported by the next contributing message
            if contributing_cc {
                if let Some((b, _)) = ob.owed {
                    let reported = out.iter().flatten().any(|t| (is_7bit_entry(t) && t[2] == b as u32) || (is_14bit(t) && (t[2] >> 7) == b as u32));
                    if !reported {
                        v.push(self.v14("P6-pending-msb-lost", &trigger, || format!("controller-6 byte {} was pending; the next contributing message {} returned {:?} without reporting it", b, trigger, out.map(|o| o.map(|t| pnm_str(&t))))));
                    }
                }
            }
        }
        if self.report.c13 {
            // R5: after an unpaired LSB was dropped by a poll, a controller-6 feed must not
            // produce a 14-bit message
            if contributing_cc && ob.lsb_dropped && d1 == 6 && out.iter().flatten().any(is_14bit) {
                v.push(self.v13("R5-unpaired-lsb-dropped-by-poll-after-timeout", "feed(CC#6)", || format!("an unpaired data entry LSB was polled after the timeout, yet the following controller-6 feed reported {:?}", out.map(|o| o.map(|t| pnm_str(&t))))));
            }
            // R4: the mere passage of time never changes what feed returns
            let later: [u64; 4] = if self.timeout >= T_INF { [1, 2, 1000, self.cap] } else { [1, self.timeout.max(1), self.timeout + 1, self.cap] };
            for dt in later {
                self.clock(s.now + dt);
                let mut c2 = s.sc;
                let o2 = c2.feed_msg(&msg);
                if o2 != out {
                    v.push(self.v13("R4-time-does-not-change-feed", &trigger, || format!("{} returns {:?} now but {:?} when fed {} ms later", trigger, out.map(|o| o.map(|t| pnm_str(&t))), o2.map(|o| o.map(|t| pnm_str(&t))), self.ms(dt))));
                    break;
                }
            }
            self.clock(s.now);
        }
        if self.report.dup {
            self.clock(s.now);
            let mut copy = s.sc;
            let out2 = copy.feed_msg(&msg);
            if out2 != out || copy != sc {
                v.push(self.vx("copy-evolves-identically", "feed", || format!("feeding ({:#04X},{},{}) to two copies of the same scanner gave {:?} / {:?}, states equal: {}", st, d1, d2, out, out2, copy == sc)));
            }
        }
        if self.report.repr {
            self.clock(s.now);
            if let Some(d) = repr_divergence(&s.sc, &sc, &out, st, d1, d2) {
                v.push(self.vx("representation-matters", "feed", || format!("({:#04X},{},{}): {}", st, d1, d2, d)));
            }
        }
        // ---- observer update ----
        for t in out.iter().flatten() {
            if is_7bit_entry(t) || is_14bit(t) {
                if let Some((b, _)) = nob.last6 {
                    nob.last6 = Some((b, false));
                }
            }
        }
        if contributing_cc {
            let complete = ob.number().is_some();
            let reported_14 = out.iter().flatten().any(is_14bit);
            nob.owed = None;
            nob.lsbp = None;
            nob.lsb_dropped = false;
            match d1 {
                99 | 101 => {
                    nob.msb = Some(d2);
                    nob.reg = d1 == 101;
                }
                98 | 100 => {
                    nob.lsb = Some(d2);
                    nob.reg = d1 == 100;
                }
                6 => {
                    nob.last6 = Some((d2, !reported_14));
                    if complete && !reported_14 {
                        nob.owed = Some((d2, s.now));
                    }
                }
                38 => {
                    nob.last38 = Some(d2);
                    if complete && out[0].is_none() && out[1].is_none() {
                        nob.lsbp = Some(s.now);
                    }
                }
                _ => {}
            }
        }
        let obs = match (out[0], out[1]) {
            (None, None) => 0,
            _ => h64(&out),
        };
        Step { strict: false,
            next: Some(PoState { sc, now: s.now, ob: nob }),
            obs,
            violations: v,
        }
    }

    /// Feed as an action. Probes (`expand == false`) are judged but not expanded; with
    /// `deep_probes` every probe is followed by ONE more judged step: each contributing controller
    /// over the follow-up byte domain, and a poll now and after the timeout. This covers behaviour
    /// that depends on a stored byte outside the expansion domain and only shows one step later.
    fn do_feed(&self, s: &PoState, st: u8, d1: u8, d2: u8, expand: bool) -> Step<PoState> {
        let mut r = self.feed_core(s, st, d1, d2);
        if !expand {
            if self.deep_probes && r.violations.is_empty() && !matches!(d1, 96 | 97) {
                if let Some(mid) = r.next.as_ref() {
                    let mut extra = Vec::new();
                    let mut n = 0u64;
                    for &c in &[98u8, 99, 100, 101, 38, 6, 96, 97] {
                        for &v in &self.followup_values {
                            let r2 = self.feed_core(mid, 0xB0 | self.ch, c, v);
                            n += 1;
                            for mut x in r2.violations {
                                x.signature = format!("{}/second-step", x.signature);
                                x.detail = format!("after the one-step probe CC#{} ={}, then CC#{} ={}: {}", d1, d2, c, v, x.detail);
                                extra.push(x);
                            }
                        }
                    }
                    for dt in [0u64, self.timeout.min(1 << 20) + 1] {
                        let later = PoState { sc: mid.sc, now: mid.now + dt, ob: mid.ob };
                        let r2 = self.do_poll(&later);
                        n += 1;
                        for mut x in r2.violations {
                            x.signature = format!("{}/second-step", x.signature);
                            x.detail = format!("after the one-step probe CC#{} ={}, then {} ms, then poll: {}", d1, d2, dt, x.detail);
                            extra.push(x);
                        }
                    }
                    self.deep_evals.fetch_add(n, Ordering::Relaxed);
                    r.violations.extend(extra);
                }
            }
            r.next = None;
        }
        r
    }

    fn do_poll(&self, s: &PoState) -> Step<PoState> {
        let mut v = Vec::new();
        self.clock(s.now);
        let mut sc = s.sc;
        let out = sc.poll_ch(self.ch);
        let ob = &s.ob;
        let mut nob = *ob;
        let age_owed = ob.owed.map(|(_, since)| s.now - since);
        let age_lsb = ob.lsbp.map(|since| s.now - since);
        if self.report.c14 {
            if let Some(t) = &out {
                self.judge_content(ob, None, t, "poll", &mut v);
            }
            // P6, poll clause: the first poll after the timeout reports a pending controller-6 byte
            if let (Some((b, _)), Some(age)) = (ob.owed, age_owed) {
                let reported = out.map_or(false, |t| is_7bit_entry(&t) && t[2] == b as u32);
                if self.expired(age) && !reported {
                    v.push(self.v14("P6-pending-msb-lost", "poll", || format!("controller-6 byte {} was pending for {} ms (timeout {}); the first poll after the timeout returned {:?} without reporting it", b, self.ms(age), self.tname(), out.map(|t| pnm_str(&t)))));
                }
            }
        }
        if self.report.c13 {
            match (&out, ob.owed, age_owed) {
                (Some(t), Some((b, _)), Some(age)) => {
                    if !self.expired(age) {
                        v.push(self.v13("R1-poll-returns-only-after-timeout", "early", || format!("poll returned {} only {} ms after the data entry MSB was fed (timeout {})", pnm_str(t), self.ms(age), self.tname())));
                    }
                    let want = [self.ch as u32, ob.number().unwrap_or(u32::MAX), b as u32, ob.reg as u32, 0, 0];
                    if *t != want {
                        v.push(self.v13("R1-poll-returns-the-pending-msb", "content", || format!("poll returned {}; the pending data entry MSB is {} for number {:?} registered={}", pnm_str(t), b, ob.number(), ob.reg)));
                    }
                }
                (Some(t), None, _) => {
                    v.push(self.v13("R1-poll-returns-only-a-pending-msb", "nothing-pending", || format!("poll returned {} although no data entry MSB is pending (history record {:?})", pnm_str(t), ob)));
                }
                (None, Some((b, _)), Some(age)) => {
                    if self.expired(age) {
                        v.push(self.v13("R2-poll-returns-expired-pending-msb", "missing", || format!("data entry MSB {} has been pending for {} ms (timeout {}) but poll returned nothing", b, self.ms(age), self.tname())));
                    }
                }
                _ => {}
            }
            // R3: a poll before the timeout has no effect
            let early = age_owed.map_or(false, |a| !self.expired(a)) || age_lsb.map_or(false, |a| !self.expired(a));
            if early && out.is_none() && sc != s.sc {
                v.push(self.v13("R3-early-poll-has-no-effect", "state", || format!("a poll before the timeout changed the scanner: {:?} -> {:?}", s.sc, sc)));
            }
        }
        if self.report.dup {
            self.clock(s.now);
            let mut copy = s.sc;
            let out2 = copy.poll_ch(self.ch);
            if out2 != out || copy != sc {
                v.push(self.vx("copy-evolves-identically", "poll", || "polling two copies of the same scanner gave different results".to_string()));
            }
        }
        // observer update
        if out.is_some() {
            if let Some((b, _)) = nob.last6 {
                nob.last6 = Some((b, false));
            }
        }
        if age_owed.map_or(false, |a| self.expired(a)) {
            nob.owed = None;
        }
        if age_lsb.map_or(false, |a| self.expired(a)) {
            nob.lsbp = None;
            nob.lsb_dropped = true;
        }
        Step { strict: false,
            next: Some(PoState { sc, now: s.now, ob: nob }),
            obs: out.map_or(0, |t| h64(&("poll", t))),
            violations: v,
        }
    }
}

impl System for PollSys {
    type State = PoState;
    type Action = PoAct;
    type Key = (u128, Obs);

    fn pid(&self) -> String {
        self.pid.to_string()
    }
    fn name(&self) -> String {
        format!("PollingParameterNumberMessageScanner x history-observer [ch={}, timeout={}, tick={}us, clock advance per reading={}, age cap={}, |alphabet|={}, probes={}, transparent={}]", self.ch, self.tname(), self.tick_ns / 1000, self.advance, self.cap, self.alphabet.len(), self.probes.len(), self.noncontrib.len())
    }
    fn init(&self) -> PoState {
        self.clock(0);
        PoState {
            sc: self.new_scanner(),
            now: 0,
            ob: Obs::default(),
        }
    }
    fn actions(&self, s: &PoState, out: &mut Vec<PoAct>) {
        self.actions_at(s, u32::MAX, out)
    }
    fn actions_at(&self, _s: &PoState, depth: u32, out: &mut Vec<PoAct>) {
        for &(c, v) in &self.alphabet {
            out.push(PoAct::Cc(c, v));
        }
        for i in 0..self.others.len() {
            out.push(PoAct::Other(i as u32));
        }
        out.push(PoAct::Poll);
        out.push(PoAct::Tick);
        // long pauses only near the initial state: every pending phase is reachable within a few
        // steps, and offering five pauses (each with its own wrap-adjacent age classes) from every
        // state triples the state space for no new control structure
        if depth <= PAUSE_DEPTH {
            for i in 0..self.pauses.len() {
                out.push(PoAct::Pause(i as u8));
            }
        }
        if depth <= STORM_DEPTH + 1 {
            for i in 0..self.storms.len() {
                out.push(PoAct::ResetStorm(i as u8));
            }
        }
        // pumped cycles: length <= 2 from states within 2 steps of the initial state (this includes
        // every "number selected" state), length 3 from states within 1 step
        if depth <= 2 {
            for (i, c) in self.pump_cycles.iter().enumerate() {
                if c.len() <= 2 || depth <= 1 {
                    out.push(PoAct::Pump(i as u16));
                }
            }
        }
        if depth <= 1 {
            for i in 0..self.long_pumps.min(self.pump_cycles.len()) {
                out.push(PoAct::Pump((self.pump_cycles.len() + i) as u16));
            }
        }
        out.push(PoAct::TouchAll);
        if depth <= 2 {
            for &k in &self.special_rpns {
                out.push(PoAct::SelectRpn(k));
            }
        }
        if self.report.c14 {
            for i in 0..ABORT_MSGS.len() {
                for n in 0..10u8 {
                    out.push(PoAct::AbortProbe(i as u8, n));
                }
            }
        }
        // (only in the exploration that also has the reset storms: the first channel)
        if depth <= 1 && self.report.reset && !self.storms.is_empty() {
            out.push(PoAct::ProgressAll);
        }
        out.push(PoAct::Reset);
        out.push(PoAct::ResetProbe);
        for &(c, v) in &self.probes {
            out.push(PoAct::CcProbe(c, v));
        }
        for i in 0..self.noncontrib.len() {
            out.push(PoAct::Transparent(i as u32));
        }
    }
    fn step(&self, s: &PoState, a: &PoAct) -> Step<PoState> {
        let before = tl_api_allocs();
        let mut r = self.step_inner(s, a);
        let n = tl_api_allocs() - before;
        if self.report.alloc && n > 0 {
            r.violations.push(self.vx("no-heap-allocation", "scanner-call", || format!("{} heap allocation(s) inside the real scanner call(s) of action {}", n, self.render(a))));
        }
        r
    }
    fn key(&self, s: &PoState) -> (u128, Obs) {
        self.key_inner(s)
    }
    fn n_classes(&self) -> usize {
        14
    }
    fn class_name(&self, i: usize) -> String {
        ["feed-contributing-cc", "feed-cc-probe(concretisation)", "feed-other(expanded)", "feed-must-be-transparent", "poll", "tick-1ms", "reset", "reset-probe", "long-pause", "reset-storm", "touch-all-16-channels", "pumped-cycle", "progress-on-15-other-channels", "feed-aborted-by-a-panicking-getter(probe)"][i].to_string()
    }
    fn class_of(&self, a: &PoAct) -> usize {
        match a {
            PoAct::Cc(..) => 0,
            PoAct::CcProbe(..) => 1,
            PoAct::Other(..) => 2,
            PoAct::Transparent(..) => 3,
            PoAct::Poll => 4,
            PoAct::Tick => 5,
            PoAct::Reset => 6,
            PoAct::ResetProbe => 7,
            PoAct::Pause(_) => 8,
            PoAct::ResetStorm(_) => 9,
            PoAct::TouchAll => 10,
            PoAct::Pump(_) => 11,
            PoAct::ProgressAll => 12,
            PoAct::AbortProbe(..) => 13,
            PoAct::SelectRpn(..) => 0,
        }
    }
    fn render(&self, a: &PoAct) -> String {
        match a {
            PoAct::Cc(c, v) => format!("cc:{}:{}:{}", self.ch, c, v),
            PoAct::CcProbe(c, v) => format!("ccprobe:{}:{}:{}", self.ch, c, v),
            PoAct::Other(i) => {
                let (s, a, b) = self.others[*i as usize];
                format!("raw:{}:{}:{}", s, a, b)
            }
            PoAct::Transparent(i) => {
                let (s, a, b) = self.noncontrib[*i as usize];
                format!("transparent:{}:{}:{}", s, a, b)
            }
            PoAct::Poll => format!("poll:{}", self.ch),
            PoAct::Tick => "tick".to_string(),
            PoAct::Pause(i) => format!("pause:{}", self.pauses[*i as usize]),
            PoAct::ResetStorm(i) => format!("resetstorm:{}:{}", self.storms[*i as usize].0, self.storms[*i as usize].1),
            PoAct::TouchAll => "touchall".to_string(),
            PoAct::ProgressAll => "progressall".to_string(),
            PoAct::SelectRpn(k) => format!("selectrpn:{}:{}", self.ch, k),
            PoAct::AbortProbe(i, n) => { let (st, d1, d2) = ABORT_MSGS[*i as usize]; format!("abortprobe:{}:{}:{}:{}", st | self.ch, d1, d2, n) }
            PoAct::Pump(i) => {
                let n = self.pump_cycles.len();
                let (reps, c) = if (*i as usize) < n { (self.pump_reps, &self.pump_cycles[*i as usize]) } else { (70_000, &self.pump_cycles[*i as usize - n]) };
                format!("pump:{}x{:?}", reps, c).replace(' ', "")
            }
            PoAct::Reset => "reset".to_string(),
            PoAct::ResetProbe => "resetprobe".to_string(),
        }
    }
    fn rust_preamble(&self) -> String {
        match self.exotic {
            Some((d, _)) => format!("// build with RUSTFLAGS=\"--cfg helgoboss_midi_verif\" for the mock clock\n    let mut scanner = helgoboss_midi::PollingParameterNumberMessageScanner::new(std::time::Duration::new({}, {}));\n    let mut clock = 0u64;", d.as_secs(), d.subsec_nanos()),
            None => format!("// build with RUSTFLAGS=\"--cfg helgoboss_midi_verif\" for the mock clock\n    let mut scanner = helgoboss_midi::PollingParameterNumberMessageScanner::new(std::time::Duration::from_nanos({}));\n    let mut clock = 0u64;", self.timeout_ns()),
        }
    }
    fn rust_line(&self, a: &PoAct) -> String {
        match a {
            PoAct::Cc(c, v) | PoAct::CcProbe(c, v) => format!("println!(\"{{:?}}\", scanner.feed(&helgoboss_midi::test_util::control_change({}, {}, {})));", self.ch, c, v),
            PoAct::Other(_) | PoAct::Transparent(_) => format!("// feed {}", self.render(a)),
            PoAct::Poll => format!("println!(\"{{:?}}\", scanner.poll(helgoboss_midi::test_util::channel({})));", self.ch),
            PoAct::Tick => format!("clock += 1; helgoboss_midi::verif_hooks::set_now_ticks_advancing(clock, {}, {}); // one tick = {} us", self.tick_ns, self.advance, self.tick_ns / 1000),
            PoAct::Pause(i) => format!("clock += {}; helgoboss_midi::verif_hooks::set_now_ticks_advancing(clock, {}, {});", self.pauses[*i as usize], self.tick_ns, self.advance),
            PoAct::ResetStorm(i) => {
                let (n, traffic) = self.storms[*i as usize];
                if traffic {
                    format!("for _ in 0..{} {{ scanner.feed(&helgoboss_midi::test_util::note_on({}, 1, 1)); scanner.reset(); }}", n, (self.ch + 1) % 16)
                } else {
                    format!("for _ in 0..{} {{ scanner.reset(); }}", n)
                }
            }
            PoAct::SelectRpn(k) => format!("scanner.feed(&helgoboss_midi::test_util::control_change({c}, 101, 0)); println!(\"{{:?}}\", scanner.feed(&helgoboss_midi::test_util::control_change({c}, 100, {k})));", c = self.ch, k = k),
            PoAct::AbortProbe(..) => format!("// {} (a ShortMessage implementation whose n-th getter call panics, fed inside catch_unwind)", self.render(a)),
            PoAct::ProgressAll => format!("for c in 0..16 {{ if c != {} {{ scanner.feed(&helgoboss_midi::test_util::control_change(c, 99, 1)); }} }}", self.ch),
            PoAct::TouchAll => "for c in 0..16 { scanner.feed(&helgoboss_midi::test_util::note_on(c, 1, 1)); scanner.feed(&helgoboss_midi::test_util::control_change(c, 7, 1)); }".to_string(),
            PoAct::Pump(i) => {
                let n = self.pump_cycles.len();
                let (reps, c) = if (*i as usize) < n { (self.pump_reps, &self.pump_cycles[*i as usize]) } else { (70_000, &self.pump_cycles[*i as usize - n]) };
                format!("for _ in 0..{} {{ /* one round of {:?} on channel {} (Cc(n, v) = feed control_change, Poll = poll, Tick = clock += 1) */ }}", reps, c, self.ch)
            }
            PoAct::Reset | PoAct::ResetProbe => "scanner.reset();".to_string(),
        }
    }
}

impl PollSys {
    fn step_inner(&self, s: &PoState, a: &PoAct) -> Step<PoState> {
        match a {
            PoAct::Cc(c, v) => self.do_feed(s, 0xB0 | self.ch, *c, *v, true),
            PoAct::SelectRpn(k) => {
                let mut r1 = self.feed_core(s, 0xB0 | self.ch, 101, 0);
                match r1.next.take() {
                    Some(mid) => {
                        let mut r2 = self.feed_core(&mid, 0xB0 | self.ch, 100, *k);
                        r1.violations.append(&mut r2.violations);
                        Step { strict: false, next: r2.next, obs: r2.obs, violations: r1.violations }
                    }
                    None => r1,
                }
            }
            PoAct::CcProbe(c, v) => self.do_feed(s, 0xB0 | self.ch, *c, *v, false),
            PoAct::Other(i) => {
                let (st, a, b) = self.others[*i as usize];
                self.do_feed(s, st, a, b, true)
            }
            PoAct::Transparent(i) => {
                let (st, d1, d2) = self.noncontrib[*i as usize];
                self.clock(s.now);
                let mut sc = s.sc;
                let out = sc.feed_msg(&raw(st, d1, d2));
                let mut v = Vec::new();
                if st & 0xF0 == 0xB0 && (out[0].is_some() || sc != s.sc) {
                    self.reacted[d1 as usize].store(true, Ordering::Relaxed);
                }
                if self.report.transparency {
                    let cls = if st & 0xF0 == 0xB0 { format!("CC#{}", d1) } else { format!("status{:X}", if st < 0xF0 { st & 0xF0 } else { st }) };
                    if out[0].is_some() || out[1].is_some() {
                        v.push(self.vx("non-contributing-reports", &cls, || format!("non-contributing message ({:#04X},{},{}) made the scanner report {:?}", st, d1, d2, out)));
                    }
                    if sc != s.sc {
                        v.push(self.vx("non-contributing-changes-state", &cls, || format!("non-contributing message ({:#04X},{},{}) left the scanner in a different state", st, d1, d2)));
                    }
                }
                if self.report.repr {
                    if let Some(d) = repr_divergence(&s.sc, &sc, &out, st, d1, d2) {
                        v.push(self.vx("representation-matters", "non-contributing", || format!("({:#04X},{},{}): {}", st, d1, d2, d)));
                    }
                }
                Step { strict: false, next: None, obs: 0, violations: v }
            }
            PoAct::Poll => self.do_poll(s),
            PoAct::Tick => Step { strict: false,
                next: Some(PoState { sc: s.sc, now: s.now + 1, ob: s.ob }),
                obs: 0,
                violations: Vec::new(),
            },
            PoAct::Pause(i) => Step { strict: false,
                next: Some(PoState { sc: s.sc, now: s.now + self.pauses[*i as usize], ob: s.ob }),
                obs: 0,
                violations: Vec::new(),
            },
            PoAct::ResetStorm(i) => {
                self.clock(s.now);
                let (n, traffic) = self.storms[*i as usize];
                let mut sc = s.sc;
                let other = raw(0x90 | ((self.ch + 1) % 16), 1, 1);
                let mut v = Vec::new();
                for _ in 0..n {
                    if traffic {
                        let o = sc.feed_msg(&other);
                        if (o[0].is_some() || o[1].is_some()) && v.is_empty() {
                            v.push(self.vx("non-contributing-reports", "reset-storm", || format!("a note-on on another channel reported {:?} during a reset storm", o)));
                        }
                    }
                    sc.reset_all();
                }
                if self.report.reset {
                    let fresh = self.new_scanner();
                    if let Some(d) = post_reset_differential(&sc, &fresh, self.ch, &[99, 98, 101, 100, 38, 6, 96, 97], 3, true) {
                        v.push(self.vx("reset-behaves-like-new", "reset-storm", || format!("after {} resets: {}", n, d)));
                    }
                }
                let ob = Obs { last6: s.ob.last6, last38: s.ob.last38, ..Obs::default() };
                Step { strict: false, next: Some(PoState { sc, now: s.now, ob }), obs: 0, violations: v }
            }
            PoAct::Pump(i) => {
                let n = self.pump_cycles.len();
                if (*i as usize) < n {
                    self.pump(s, &self.pump_cycles[*i as usize], self.pump_reps)
                } else {
                    self.pump(s, &self.pump_cycles[*i as usize - n], 70_000)
                }
            }
            PoAct::AbortProbe(i, n) => {
                let (st, d1, d2) = ABORT_MSGS[*i as usize];
                let st = st | self.ch;
                let mut v = Vec::new();
                self.clock(s.now);
                let mut sc = s.sc;
                let msg = ForeignPanicky { s: st, d1: crate::midi::u7(d1), d2: crate::midi::u7(d2), calls: core::cell::Cell::new(0), panic_at: *n as u32 };
                let r = xs::catch(|| sc.feed_msg(&msg));
                if r.is_err() {
                    self.clock(s.now);
                    let mut full = s.sc;
                    let _ = full.feed_msg(&raw(st, d1, d2));
                    if sc != s.sc && sc != full {
                        v.push(self.vx("aborted-feed-leaves-inconsistent-state", "getter-panics", || format!("feeding ({:#04X},{},{}) through a message type whose getter call #{} panics (caught by the caller) left the scanner in a state that is neither the prior one nor the one after the complete feed: {:?}", st, d1, d2, n, sc)));
                    } else {
                        // it must go on behaving like that state: polls now and after the timeout, and one more data entry
                        let reference = if sc == s.sc { s.sc } else { full };
                        for dt in [0u64, self.timeout.min(1 << 20) + 1] {
                            self.clock(s.now + dt);
                            let (mut a, mut b) = (sc, reference);
                            let (pa, pb) = (a.poll_ch(self.ch), b.poll_ch(self.ch));
                            let (fa, fb) = (a.feed_msg(&raw(0xB0 | self.ch, 6, 5)), b.feed_msg(&raw(0xB0 | self.ch, 6, 5)));
                            let (qa, qb) = (a.poll_ch(self.ch), b.poll_ch(self.ch));
                            if pa != pb || fa != fb || qa != qb {
                                v.push(self.vx("aborted-feed-leaves-inconsistent-state", "getter-panics-behaviour", || format!("after an aborted feed of ({:#04X},{},{}) (getter call #{} panicked) the scanner == {} but behaves differently {} ticks later: poll {:?} / {:?}, feed(CC 6) {:?} / {:?}, poll {:?} / {:?}", st, d1, d2, n, if sc == s.sc { "its prior state" } else { "the state after the complete feed" }, dt, pa, pb, fa, fb, qa, qb)));
                                break;
                            }
                        }
                        self.clock(s.now);
                    }
                }
                Step { strict: false, next: None, obs: r.is_err() as u64, violations: v }
            }
            PoAct::ProgressAll => {
                self.clock(s.now);
                let mut sc = s.sc;
                for c in 0..16u8 {
                    if c != self.ch {
                        let _ = sc.feed_msg(&raw(0xB0 | c, 99, 1));
                    }
                }
                Step { strict: true, next: Some(PoState { sc, now: s.now, ob: s.ob }), obs: 0, violations: Vec::new() }
            }
            PoAct::TouchAll => {
                self.clock(s.now);
                let mut sc = s.sc;
                let mut v = Vec::new();
                for c in 0..16u8 {
                    for m in [raw(0x90 | c, 1, 1), raw(0xB0 | c, 7, 1)] {
                        let o = sc.feed_msg(&m);
                        if (o[0].is_some() || o[1].is_some()) && v.is_empty() && (self.report.c14 || self.report.transparency) {
                            v.push(self.vx("non-contributing-reports", "touch-all", || format!("a non-contributing message on channel {} reported {:?}", c, o)));
                        }
                    }
                }
                Step { strict: false, next: Some(PoState { sc, now: s.now, ob: s.ob }), obs: 0, violations: v }
            }
            PoAct::Reset => {
                self.clock(s.now);
                let mut sc = s.sc;
                sc.reset();
                let ob = Obs {
                    last6: s.ob.last6,
                    last38: s.ob.last38,
                    ..Obs::default()
                };
                Step { strict: false,
                    next: Some(PoState { sc, now: s.now, ob }),
                    obs: 0,
                    violations: Vec::new(),
                }
            }
            PoAct::ResetProbe => {
                let mut v = Vec::new();
                if self.report.reset {
                    self.clock(s.now);
                    let mut sc = s.sc;
                    sc.reset();
                    let fresh = self.new_scanner();
                    if sc != fresh {
                        v.push(self.vx("reset-equals-new", "reset", || format!("after reset() the scanner is {:?}, a new one with the same timeout is {:?}", sc, fresh)));
                    }
                    if let Some(d) = post_reset_differential(&sc, &fresh, self.ch, &[99, 98, 101, 100, 38, 6, 96, 97], 3, true) {
                        v.push(self.vx("reset-behaves-like-new", "reset", || d));
                    }
                }
                Step { strict: false, next: None, obs: 0, violations: v }
            }
        }
    }
    fn key_inner(&self, s: &PoState) -> (u128, Obs) {
        let mut o = s.ob;
        if let Some((b, since)) = o.owed {
            o.owed = Some((b, canon_age(s.now - since, self.cap)));
        }
        if let Some(since) = o.lsbp {
            o.lsbp = Some(canon_age(s.now - since, self.cap));
        }
        (scanner_fp(&s.sc, s.now, self.cap), o)
    }
}

// ---------------------------------------------------------------------------------------------
// C13 / C14 runs
// ---------------------------------------------------------------------------------------------

pub const TIMEOUTS: [u64; 3] = [0, 2, T_INF];

fn run_observer(chk: &xs::Check, tier: xs::Tier, pid: &'static str, report: PReport) {
    use serde_json::json;
    use xs::{engine, Limits};
    chk.assume("byte-value abstraction (DESIGN 3.3): states expanded over a small byte domain; every one of the 8x128 concrete contributing inputs applied once from every reached state as a judged probe");
    chk.assume("ages of pending bytes saturate at CAP = 2*timeout+2 ms in the state identity (3 ms for the effectively infinite timeout); the thorough tier repeats with a doubled CAP and requires the same verdict");
    chk.assume("one channel at a time with the other 15 idle (isolation is C15)");
    let channels: Vec<u8> = if tier.thorough() { (0..16).collect() } else { vec![0, 9, 15] };
    let v3 = [0u8, 1, 127];
    let v8 = [0u8, 1, 2, 63, 64, 85, 126, 127];
    // timeouts as (ms, exact microseconds): 0, 2 ms, 2^40 ms, and - where timing is judged (C13) - a
    // timeout with a sub-millisecond part (1.5 ms) and one below a millisecond (0.5 ms)
    let mut touts: Vec<(u64, u64)> = TIMEOUTS.iter().map(|t| (*t, t.saturating_mul(1000))).collect();
    if report.c13 {
        touts.push((2, 1500));
        // below one millisecond: floor(T) in whole milliseconds is 0, T is not
        touts.push((1, 500));
    }
    for &(t, t_us) in &touts {
        // timeouts that are not whole milliseconds run on a finer clock (half / quarter millisecond
        // ticks), so that polls fall exactly on the timeout and between it and the next whole
        // millisecond
        let fine = |s: PollSys| -> PollSys {
            if t_us % 1000 == 0 {
                s
            } else if t_us < 1000 {
                s.with_tick_us(250)
            } else {
                s.with_tick_us(500)
            }
        };
        for &c in &channels {
            if t_us % 1000 != 0 && c != channels[0] {
                continue;
            }
            let mut sys = fine(PollSys::new(pid, c, t, 1, &v3, true, report).with_timeout_us(t_us));
            if !tier.thorough() && !(t_us == 2000 && c == channels[0]) {
                // quick tier: the whole-second pauses (and the age classes they create) only in one
                // exploration per check
                sys.pauses.retain(|p| *p != 998 && *p != 1000);
            }
            if c == channels[0] {
                sys.storms = vec![(256, false), (65536, false), (65536, true)];
                if t_us == 0 || t_us == 2000 {
                    sys = sys.with_pumps(if report.c14 { 3 } else { 2 });
                    if report.c14 && t_us == 0 {
                        // the 100 cycles of length <= 2 come first in pump_cycles: 70000 rounds each,
                        // every operation judged, from states within one step of the initial state
                        sys.long_pumps = 100;
                    }
                }
            }
            // second-step probing: on the first channel with the 2 ms timeout in the quick tier, on
            // channels 0, 9, 15 with every timeout in the thorough tier (first channel: follow-ups
            // over all 128 values)
            sys.deep_probes = (c == channels[0] && t_us == 2000) || (tier.thorough() && matches!(c, 0 | 9 | 15));
            if tier.thorough() && c == channels[0] {
                sys.followup_values = (0..128).collect();
            } else if !tier.thorough() {
                // what matters is the byte STORED by the probe, not the follow-up's own value
                sys.followup_values = vec![1];
            }
            let out = xs::explore(&sys, &Limits::default());
            engine::record(chk, &sys, &out, None);
            let de = sys.deep_evals.load(Ordering::Relaxed);
            if de > 0 {
                chk.add_eval(de);
                chk.push("second_step_probe_evaluations", json!({"channel": c, "timeout": sys.tname(), "evaluations": de, "follow_up_values": sys.followup_values.len()}));
            }
            if tier.thorough() && c == 0 {
                // doubled age cap: same verdict required
                let mut sys2 = fine(PollSys::new(pid, c, t, 2, &v3, false, report).with_timeout_us(t_us));
                sys2.cap = cap_for(sys2.timeout, 2);
                let out2 = xs::explore(&sys2, &Limits::default());
                engine::record(chk, &sys2, &out2, None);
                let sigs = |o: &xs::Outcome<PollSys>| {
                    let mut v: Vec<String> = o.found.iter().map(|f| f.violation.signature.clone()).collect();
                    v.sort();
                    v
                };
                chk.push("cap_doubling", json!({"timeout": sys.tname(), "states_cap": out.nodes.len(), "states_doubled_cap": out2.nodes.len(), "same_violation_set": sigs(&out) == sigs(&out2)}));
                if sigs(&out) != sigs(&out2) {
                    chk.machinery_error(format!("age-cap doubling changed the violation set for timeout {}", sys.tname()));
                }
                // second engine: stateright's own BFS and xs on the SAME system - the variant without
                // the depth-limited actions (pauses, storms, pumps), which stateright cannot be told
                // the depth for - must agree on the number of canonical states
                if out.found.is_empty() && chk.violation_count() == 0 {
                    let plain = || {
                        let mut s = fine(PollSys::new(pid, c, t, 1, &v3, false, report).with_timeout_us(t_us));
                        s.pauses.clear();
                        s
                    };
                    let xs_plain = xs::explore(&plain(), &Limits::default());
                    let r = xs::sr::run(std::sync::Arc::new(plain()), xs::n_threads());
                    chk.push("stateright_cross_check", json!({"timeout": sys.tname(), "xs_states": xs_plain.nodes.len(), "stateright_unique_states": r.unique_states, "stateright_violation": r.violation}));
                    if r.unique_states != xs_plain.nodes.len() || r.violation || !xs_plain.found.is_empty() {
                        chk.machinery_error(format!("stateright disagrees with xs for timeout {}: {} vs {} states, violation={}", sys.tname(), r.unique_states, xs_plain.nodes.len(), r.violation));
                    }
                }
            }
        }
        if tier.thorough() {
            let sys = fine(PollSys::new(pid, 3, t, 1, &v8, true, report).with_timeout_us(t_us));
            let out = xs::explore(&sys, &Limits { max_states: 8_000_000, ..Default::default() });
            engine::record(chk, &sys, &out, None);
        }
    }
}

/// Further timeout classes, each on a clock whose tick puts polls just before, exactly on and just
/// after the timeout (first channel, small byte domain, no concretisation probes - these classes
/// are about the time arithmetic, not the data path):
///  * 500 ns on 250 ns ticks and 1500 ns on 500 ns ticks: not a whole number of microseconds
///    (a timeout rounded to microseconds, or a remainder compared in microseconds, shows);
///  * 1 s on 250 ms ticks: `as_secs() > 0`, where whole-second shortcuts start to apply.
fn run_timeout_classes(chk: &xs::Check, pid: &'static str, report: PReport) {
    use xs::{engine, Limits};
    let _ = report.c13;
    let classes: Vec<(u64, u64)> = vec![(1_000_000_000, 250_000_000), (500, 250), (1500, 500)];
    for (ns, tick_ns) in classes {
        let mut sys = PollSys::new(pid, 0, 1, 1, &[0, 1, 127], false, report).with_timeout_ns(ns, tick_ns);
        sys.storms = vec![(256, false)];
        let out = xs::explore(&sys, &Limits::default());
        engine::record(chk, &sys, &out, None);
    }
}

/// The standardised registered parameter numbers (0, 2) ... (0, 6) - coarse tuning, tuning program /
/// bank select, modulation depth range, MPE configuration - selected in one step near the initial
/// state and then explored like any other number (small byte domain, timeouts 0 and 2 ms).
fn run_special_rpns(chk: &xs::Check, pid: &'static str, report: PReport) {
    use xs::{engine, Limits};
    for t in [0u64, 2] {
        let mut sys = PollSys::new(pid, 0, t, 1, &[1], false, report);
        sys.special_rpns = vec![2, 3, 4, 5, 6];
        sys.pauses = vec![(1 << 20) + 100];
        let out = xs::explore(&sys, &Limits::default());
        engine::record(chk, &sys, &out, None);
    }
}

/// Timeouts so long that they never expire, each chosen so that one plausible lossy conversion
/// aliases it to ZERO: 2^32 ms (as u32 milliseconds), 2^55 s (as u64 nanoseconds), 2^58 s (as u64
/// microseconds), 2^61 s (as u64 milliseconds), plus Duration::MAX.
pub fn exotic_timeouts() -> Vec<(Duration, &'static str)> {
    vec![
        (Duration::from_millis(1 << 32), "2^32ms"),
        (Duration::from_secs(1 << 55), "2^55s"),
        (Duration::from_secs(1 << 58), "2^58s"),
        (Duration::from_secs(1 << 61), "2^61s"),
        (Duration::MAX, "Duration::MAX"),
    ]
}

fn run_exotic(chk: &xs::Check, pid: &'static str, report: PReport) {
    use xs::{engine, Limits};
    for (d, label) in exotic_timeouts() {
        let mut sys = PollSys::new(pid, 4, T_INF, 1, &[1], false, report).with_exotic(d, label);
        sys.pauses = vec![1 << 20];
        let out = xs::explore(&sys, &Limits::default());
        engine::record(chk, &sys, &out, None);
    }
}

pub fn run_c13(chk: &xs::Check, tier: xs::Tier) {
    chk.rule("reachability fixpoint of the real PollingParameterNumberMessageScanner under a mock clock x history observer, for timeouts {0, 0.5 ms, 1.5 ms, 2 ms, 2^40 ms}, the further classes {500 ns, 1500 ns, 1 s} on clocks with 250 ns / 500 ns / 250 ms ticks, and (small byte domain) five astronomically long timeouts that alias to zero under a truncating conversion (2^32 ms, 2^55 s, 2^58 s, 2^61 s, Duration::MAX); actions: 8 contributing controllers x byte domain, two non-contributing messages, poll, reset, 1 ms tick (so pending bytes are polled at every age below, at and above the timeout). Rules judged on every transition: R1 poll returns only a pending MSB whose age >= timeout, and exactly it; R2 an expired pending MSB is returned; R3 an early poll changes nothing; R4 each feed re-executed 1, T, T+1 and CAP ms later returns the same; R5 an unpaired LSB polled after the timeout is dropped");
    run_observer(chk, tier, "C13", PReport { c13: true, ..Default::default() });
    run_exotic(chk, "C13", PReport { c13: true, ..Default::default() });
    run_timeout_classes(chk, "C13", PReport { c13: true, ..Default::default() });
    run_special_rpns(chk, "C13", PReport { c13: true, ..Default::default() });
    chk.sample(serde_json::json!({"history": ["cc 99 =1", "cc 98 =0", "cc 6 =127", "tick", "poll (age 1 < timeout 2) -> None, state unchanged", "tick", "poll (age 2) -> NRPN-7bit(128, 127)", "poll -> None"]}));
}

pub fn run_c14(chk: &xs::Check, tier: xs::Tier) {
    chk.rule("same product as C13; rules judged on every transition: P1 channel of the triggering call; P2 nothing before a complete number, number/kind from the latest number bytes before the call; P3 inc/dec only from the current 96/97 message; P4 a 7-bit data entry carries the most recent controller-6 byte fed before the call, never reported/used before; P5 a 14-bit carries the most recent controller-6 and -38 bytes up to and including the current message; P6 a pending controller-6 byte is reported by the next contributing message or the first poll after the timeout; P7 two messages only for inc/dec after a pending MSB, data entry first");
    run_observer(chk, tier, "C14", PReport { c14: true, c13: false, ..Default::default() });
    run_exotic(chk, "C14", PReport { c14: true, c13: false, ..Default::default() });
    run_timeout_classes(chk, "C14", PReport { c14: true, c13: false, ..Default::default() });
    run_special_rpns(chk, "C14", PReport { c14: true, c13: false, ..Default::default() });
    chk.sample(serde_json::json!({"history": ["cc 101 =0", "cc 100 =1", "cc 6 =5", "cc 99 =7 -> RPN-7bit(number 1, value 5) (flush with the OLD number and kind)", "cc 6 =9", "cc 97 =1 -> [NRPN-7bit(897, 9), NRPN-decrement(897, 1)]"]}));
}
