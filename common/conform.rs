//! Hook conformance: a transcript of the polling scanner's behaviour over ALL action sequences up
//! to a depth, computed with the public API only and with timeouts for which real elapsed time
//! cannot matter (0 and Duration::MAX). The hooked build (mock clock) and the unhooked build (real
//! std::time::Instant) must produce the identical transcript; that binds the build on which the
//! explorations run to the shipped one.
#![allow(dead_code)]
use core::convert::TryFrom;
use core::time::Duration;
use helgoboss_midi::*;

fn mix(h: u64, x: u64) -> u64 {
    (h ^ x).wrapping_mul(0x100000001b3).rotate_left(23) ^ 0x9E3779B97F4A7C15
}

fn pnm_code(m: &ParameterNumberMessage) -> u64 {
    let dt = match m.data_type() {
        DataType::DataEntry => 0u64,
        DataType::DataIncrement => 1,
        DataType::DataDecrement => 2,
    };
    1 + ((m.channel().get() as u64) << 40 | (m.number().get() as u64) << 24 | (m.value().get() as u64) << 8 | (m.is_registered() as u64) << 3 | (m.is_14_bit() as u64) << 2 | dt)
}

struct Ctx {
    h: u64,
    calls: u64,
    reports: u64,
    dbg: u64,
    top: usize,
}

struct Sink(usize);
impl core::fmt::Write for Sink {
    fn write_str(&mut self, s: &str) -> core::fmt::Result {
        self.0 += s.len();
        Ok(())
    }
}

fn cc(c: u8, n: u8, v: u8) -> RawShortMessage {
    RawShortMessage::control_change(Channel::try_from(c).unwrap(), ControllerNumber::try_from(n).unwrap(), U7::try_from(v).unwrap())
}

fn dfs(sc: &PollingParameterNumberMessageScanner, depth: usize, ctx: &mut Ctx, msgs: &[RawShortMessage]) {
    if depth == 0 {
        return;
    }
    let n_actions = msgs.len() + 3;
    for a in 0..n_actions {
        let mut s = *sc;
        let code: u64 = if a < msgs.len() {
            let r = s.feed(&msgs[a]);
            let c0 = r[0].as_ref().map_or(0, pnm_code);
            let c1 = r[1].as_ref().map_or(0, pnm_code);
            if c0 != 0 {
                ctx.reports += 1;
            }
            if c1 != 0 {
                ctx.reports += 1;
            }
            c0.wrapping_mul(31).wrapping_add(c1)
        } else if a == msgs.len() {
            let r = s.poll(Channel::try_from(3u8).unwrap());
            if r.is_some() {
                ctx.reports += 1;
            }
            r.as_ref().map_or(0, pnm_code)
        } else if a == msgs.len() + 1 {
            let r = s.poll(Channel::try_from(4u8).unwrap());
            r.as_ref().map_or(0, pnm_code)
        } else {
            s.reset();
            0
        };
        ctx.calls += 1;
        ctx.h = mix(ctx.h, (a as u64) << 56 ^ code);
        if depth + 3 > ctx.top {
            // (the three levels next to the root: every state reachable by up to three actions)
            // Debug of a scanner with a sequence in progress must not allocate (the callers count);
            // the text itself is not part of the transcript (it contains clock readings)
            let mut sink = Sink(0);
            let _ = core::fmt::Write::write_fmt(&mut sink, format_args!("{:?}{:#?}", s, s));
            ctx.dbg += sink.0 as u64;
        }
        dfs(&s, depth - 1, ctx, msgs);
    }
}

/// (hash, calls, reports) over all sequences of length <= depth, for timeouts 0 and Duration::MAX.
pub fn transcript(depth: usize) -> (u64, u64, u64) {
    let msgs = msgs();
    run(&msgs, depth)
}

pub fn msgs() -> Vec<RawShortMessage> {
    vec![
        cc(3, 99, 1), cc(3, 98, 2), cc(3, 101, 3), cc(3, 100, 4), cc(3, 6, 5), cc(3, 6, 6), cc(3, 38, 7), cc(3, 96, 8), cc(3, 97, 9),
        RawShortMessage::note_on(Channel::try_from(3u8).unwrap(), KeyNumber::try_from(6u8).unwrap(), U7::try_from(38u8).unwrap()),
    ]
}

/// Allocation-free: depth-first search over `Copy` scanner values.
pub fn run(msgs: &[RawShortMessage], depth: usize) -> (u64, u64, u64) {
    let mut ctx = Ctx { h: 0xcbf29ce484222325, calls: 0, reports: 0, dbg: 0, top: depth };
    for t in [Duration::ZERO, Duration::MAX] {
        let sc = PollingParameterNumberMessageScanner::new(t);
        ctx.h = mix(ctx.h, 0xABCD);
        dfs(&sc, depth, &mut ctx, msgs);
    }
    (ctx.h, ctx.calls, ctx.reports)
}
