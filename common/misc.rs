//! C16 (transparency of non-contributing messages + predicates), C17 (reset / new / default /
//! copies) and the scanner part of C03 — all of them re-runs of the scanner products with other
//! rule families switched on.
#![allow(dead_code)]
use crate::cc14::*;
use crate::midi::*;
use crate::nrpn::*;
#[cfg(feature = "polling")]
use crate::polling::*;
use crate::scan::*;
use helgoboss_midi::*;
use serde_json::json;
use std::sync::atomic::{AtomicBool, Ordering};
use xs::{engine, Check, Limits, Tier, Violation};

const V3: [u8; 3] = [0, 1, 127];

fn quick_channels(tier: Tier) -> Vec<u8> {
    if tier.thorough() {
        (0..16).collect()
    } else {
        vec![0, 9, 15]
    }
}

fn merge_reacted(into: &mut [bool; 128], from: &[AtomicBool]) {
    for i in 0..128 {
        if from[i].load(Ordering::Relaxed) {
            into[i] = true;
        }
    }
}

fn check_converse<S: Scanner>(chk: &Check, reacted: &[bool; 128]) {
    for n in 0..128u8 {
        let pred = S::predicate(cn(n));
        if reacted[n as usize] != pred {
            chk.violate(Violation::new(
                "predicate-names-exactly-the-contributors",
                format!("C16/{}/predicate-vs-behaviour/CC#{}", S::NAME, n),
                format!("controller number {}: the predicate says contributing={} but in the explored state graph of {} a Control Change with this number {} a state or produced a report", n, pred, S::NAME, if reacted[n as usize] { "changed" } else { "never changed" }),
            ).with_case(format!("predicate|{}|{}", S::NAME, n)));
        }
    }
}

pub fn run_c16(chk: &Check, tier: Tier) {
    chk.rule("every state of each scanner's reachability fixpoint (abstract byte domain {0,1,127}; polling: timeouts 0, 2 ms, inf) x every non-contributing message: all 112 non-Control-Change status bytes x data bytes from {0,1,6,38,63,64,96..101,127}^2 (thorough: full 128^2) and every Control Change with a non-contributing controller number x all 128 values: the real feed must report nothing and leave the scanner == its prior value; the three ControllerNumber predicates for all 128 numbers; the 16 *_LSB constants; converse link: the set of controller numbers that change some reachable state or report must equal the predicate's set");
    let full_grid = tier.thorough();
    // predicates
    for n in 0..128u8 {
        let c = cn(n);
        let want14 = n < 64;
        let want_lsb = if n < 32 { Some(n + 32) } else { None };
        let want_pn = matches!(n, 6 | 38 | 96 | 97 | 98 | 99 | 100 | 101);
        if c.can_be_part_of_14_bit_control_change_message() != want14 {
            chk.violate(Violation::new("can_be_part_of_14_bit", format!("C16/predicate/can_be_part_of_14_bit_control_change_message/{}", if want14 { "false-negative" } else { "false-positive" }), format!("ControllerNumber({}).can_be_part_of_14_bit_control_change_message() = {}", n, !want14)).with_case(format!("pred14|{}", n)));
        }
        if c.corresponding_14_bit_lsb_controller_number().map(|x| x.get()) != want_lsb {
            chk.violate(Violation::new("corresponding_lsb", "C16/predicate/corresponding_14_bit_lsb_controller_number".to_string(), format!("ControllerNumber({}).corresponding_14_bit_lsb_controller_number() = {:?}, expected {:?}", n, c.corresponding_14_bit_lsb_controller_number(), want_lsb)).with_case(format!("predlsb|{}", n)));
        }
        if c.is_parameter_number_message_controller_number() != want_pn {
            chk.violate(Violation::new("is_parameter_number", format!("C16/predicate/is_parameter_number_message_controller_number/{}", if want_pn { "false-negative" } else { "false-positive" }), format!("ControllerNumber({}).is_parameter_number_message_controller_number() = {}", n, !want_pn)).with_case(format!("predpn|{}", n)));
        }
    }
    chk.add_eval(128 * 3);
    {
        use helgoboss_midi::controller_numbers::*;
        let pairs = [
            (BANK_SELECT, BANK_SELECT_LSB, "BANK_SELECT"), (MODULATION_WHEEL, MODULATION_WHEEL_LSB, "MODULATION_WHEEL"),
            (BREATH_CONTROLLER, BREATH_CONTROLLER_LSB, "BREATH_CONTROLLER"), (FOOT_CONTROLLER, FOOT_CONTROLLER_LSB, "FOOT_CONTROLLER"),
            (PORTAMENTO_TIME, PORTAMENTO_TIME_LSB, "PORTAMENTO_TIME"), (DATA_ENTRY_MSB, DATA_ENTRY_MSB_LSB, "DATA_ENTRY_MSB"),
            (CHANNEL_VOLUME, CHANNEL_VOLUME_LSB, "CHANNEL_VOLUME"), (BALANCE, BALANCE_LSB, "BALANCE"), (PAN, PAN_LSB, "PAN"),
            (EXPRESSION_CONTROLLER, EXPRESSION_CONTROLLER_LSB, "EXPRESSION_CONTROLLER"), (EFFECT_CONTROL_1, EFFECT_CONTROL_1_LSB, "EFFECT_CONTROL_1"),
            (EFFECT_CONTROL_2, EFFECT_CONTROL_2_LSB, "EFFECT_CONTROL_2"), (GENERAL_PURPOSE_CONTROLLER_1, GENERAL_PURPOSE_CONTROLLER_1_LSB, "GENERAL_PURPOSE_CONTROLLER_1"),
            (GENERAL_PURPOSE_CONTROLLER_2, GENERAL_PURPOSE_CONTROLLER_2_LSB, "GENERAL_PURPOSE_CONTROLLER_2"), (GENERAL_PURPOSE_CONTROLLER_3, GENERAL_PURPOSE_CONTROLLER_3_LSB, "GENERAL_PURPOSE_CONTROLLER_3"),
            (GENERAL_PURPOSE_CONTROLLER_4, GENERAL_PURPOSE_CONTROLLER_4_LSB, "GENERAL_PURPOSE_CONTROLLER_4"),
        ];
        for (m, l, name) in pairs.iter() {
            if l.get() != m.get() + 32 || m.corresponding_14_bit_lsb_controller_number() != Some(*l) {
                chk.violate(Violation::new("lsb-constant", format!("C16/constant/{}_LSB", name), format!("{} = {}, {}_LSB = {} (expected {})", name, m.get(), name, l.get(), m.get() + 32)).with_case(format!("const|{}", name)));
            }
        }
        // the (N)RPN controller constants used by the encoder and named by the predicate
        let named = [(DATA_ENTRY_MSB, 6u8), (DATA_ENTRY_MSB_LSB, 38), (DATA_INCREMENT, 96), (DATA_DECREMENT, 97), (NON_REGISTERED_PARAMETER_NUMBER_LSB, 98), (NON_REGISTERED_PARAMETER_NUMBER_MSB, 99), (REGISTERED_PARAMETER_NUMBER_LSB, 100), (REGISTERED_PARAMETER_NUMBER_MSB, 101)];
        for (c, want) in named.iter() {
            if c.get() != *want {
                chk.violate(Violation::new("pn-constant", format!("C16/constant/cc{}", want), format!("an (N)RPN controller constant is {} instead of {}", c.get(), want)));
            }
        }
        chk.add_eval(24);
    }
    let rep = Report { transparency: true, ..Default::default() };
    // 14-bit CC scanner
    let mut reacted = [false; 128];
    for &c in &quick_channels(tier) {
        let mut sys = c08_system("C16", c, rep, &V3);
        sys.noncontrib = noncontrib_full::<ControlChange14BitMessageScanner>(c, full_grid);
        let out = xs::explore(&sys, &Limits::default());
        engine::record(chk, &sys, &out, None);
        merge_reacted(&mut reacted, &sys.reacted);
    }
    check_converse::<ControlChange14BitMessageScanner>(chk, &reacted);
    // (N)RPN scanner
    let mut reacted = [false; 128];
    for &c in &quick_channels(tier) {
        let mut sys = c11_system("C16", c, rep, &V3, false);
        sys.noncontrib = noncontrib_full::<ParameterNumberMessageScanner>(c, full_grid);
        let out = xs::explore(&sys, &Limits::default());
        engine::record(chk, &sys, &out, None);
        merge_reacted(&mut reacted, &sys.reacted);
    }
    check_converse::<ParameterNumberMessageScanner>(chk, &reacted);
    // polling scanner
    #[cfg(feature = "polling")]
    {
        let mut reacted = [false; 128];
        let chans: Vec<u8> = if tier.thorough() { vec![0, 15] } else { vec![9] };
        for &t in &TIMEOUTS {
            for &c in &chans {
                let mut sys = PollSys::new("C16", c, t, 1, &V3, false, PReport { transparency: true, ..Default::default() });
                sys.noncontrib = noncontrib_full::<PollingParameterNumberMessageScanner>(c, full_grid);
                let out = xs::explore(&sys, &Limits::default());
                engine::record(chk, &sys, &out, None);
                merge_reacted(&mut reacted, &sys.reacted);
            }
        }
        check_converse::<PollingParameterNumberMessageScanner>(chk, &reacted);
    }
    chk.add_eval(3 * 128);
    chk.sample(json!({"state": "14-bit CC scanner with stored MSB (cn 1, 127)", "message": "(0xF2, 1, 33) song position pointer", "expected": "no report, scanner == before"}));
    chk.sample(json!({"state": "(N)RPN scanner, number complete, data LSB stored", "message": "CC #7 =6 on the same channel", "expected": "no report, scanner == before"}));
}

pub fn run_c17(chk: &Check, tier: Tier) {
    chk.rule("reset is an ordinary action of every scanner fixpoint (C08/C11/C13/C14 judge all continuations after it); here, additionally, in EVERY reachable state: a reset copy must == a new scanner (same timeout for the polling scanner); feeding/polling two copies gives identical results and == successors; every state is re-derived by replaying its BFS path on a fresh scanner from clock 0 (a divergence means state lives outside the value); new() == default(), polling default() == new(0)");
    // constructors
    if ControlChange14BitMessageScanner::new() != ControlChange14BitMessageScanner::default() {
        chk.violate(Violation::new("new-equals-default", "C17/ControlChange14BitMessageScanner/new-equals-default".to_string(), "new() != default()".to_string()));
    }
    if ParameterNumberMessageScanner::new() != ParameterNumberMessageScanner::default() {
        chk.violate(Violation::new("new-equals-default", "C17/ParameterNumberMessageScanner/new-equals-default".to_string(), "new() != default()".to_string()));
    }
    #[cfg(feature = "polling")]
    {
        if PollingParameterNumberMessageScanner::default() != PollingParameterNumberMessageScanner::new(core::time::Duration::ZERO) {
            chk.violate(Violation::new("new-equals-default", "C17/PollingParameterNumberMessageScanner/default-equals-new-zero".to_string(), "default() != new(Duration::ZERO)".to_string()));
        }
    }
    chk.add_eval(3);
    // (first, so that a broken tree whose state space explodes still gets these probes; once a
    // violation is known the explorations below run under tight caps)
    if tier.thorough() {
        huge_traffic::<ControlChange14BitMessageScanner>(chk, 0, &[(6, 5)], &[38, 6, 7, 39], (1, 1));
        huge_traffic::<ParameterNumberMessageScanner>(chk, 0, &[(99, 1)], &[98, 6, 38, 96], (99, 1));
        #[cfg(feature = "polling")]
        huge_traffic::<PollingParameterNumberMessageScanner>(chk, 0, &[(99, 1)], &[98, 6, 38, 96], (99, 1));
        huge_storm::<ControlChange14BitMessageScanner>(chk, 0, &[(6, 5)], &[38, 6, 7, 39]);
        huge_storm::<ParameterNumberMessageScanner>(chk, 0, &[(99, 1), (98, 2), (38, 3)], &[6, 38, 96, 98]);
        #[cfg(feature = "polling")]
        huge_storm::<PollingParameterNumberMessageScanner>(chk, 0, &[(99, 1), (98, 2), (6, 3)], &[6, 38, 96, 98]);
    }
    let rep = Report { reset: true, dup: true, ..Default::default() };
    for &c in &quick_channels(tier) {
        // the complete concrete state space of the 14-bit scanner: reset from all 4097 states
        let vals: Vec<u8> = if c == 0 || tier.thorough() { (0..128).collect() } else { V3.to_vec() };
        let mut sys = c08_system("C17", c, rep, &vals);
        if vals.len() < 128 {
            sys.storms = vec![(256, false), (65536, false), (65536, true)];
        }
        let out = xs::explore(&sys, &Limits::default());
        engine::record(chk, &sys, &out, Some("C17"));
        let mut sys = c11_system("C17", c, rep, if tier.thorough() { &V8 } else { &V3 }, false);
        sys.storms = vec![(256, false), (65536, false), (65536, true)];
        let out = xs::explore(&sys, &Limits::default());
        engine::record(chk, &sys, &out, Some("C17"));
    }
    #[cfg(feature = "polling")]
    for &t in &[0u64, 2] {
        for &c in &quick_channels(tier) {
            let mut sys = PollSys::new("C17", c, t, 1, &V3, false, PReport { reset: true, dup: true, ..Default::default() });
            if c == quick_channels(tier)[0] {
                sys.storms = vec![(256, false), (65536, false), (65536, true)];
            }
            let out = xs::explore(&sys, &Limits::default());
            engine::record(chk, &sys, &out, Some("C17"));
        }
    }
    // several channels touched before the reset: three-channel products with reset == new judged
    // on the multi-channel scanner
    fn triples<S: Scanner>(chk: &Check, timeout: u64) {
        for (a, b, c) in [(0u8, 8u8, 15u8), (2, 3, 4)] {
            let mut sys = crate::iso::IsoSys::<S>::new(a, b, timeout, false);
            sys.chans[2] = c;
            sys.triple = true;
            sys.check_reset = true;
            sys.pid = "C17";
            if S::POLLS {
                sys.ctrls = vec![98, 99, 6];
                sys.sys_msgs.truncate(1);
            }
            let out = xs::explore(&sys, &Limits::default());
            engine::record(chk, &sys, &out, Some("C17"));
        }
    }
    triples::<ControlChange14BitMessageScanner>(chk, 0);
    triples::<ParameterNumberMessageScanner>(chk, 0);
    #[cfg(feature = "polling")]
    triples::<PollingParameterNumberMessageScanner>(chk, 2);
    chk.sample(json!({"state": "polling scanner, timeout 2 ms, data entry MSB pending for 1 ms on channel 9", "check": "copy.reset(); copy == PollingParameterNumberMessageScanner::new(2 ms)"}));
    // thorough tier: 2^32 resets in a row (a 32-bit generation counter wraps exactly there), from a
    // state with progress on channels 0 and 15; afterwards the scanner must == a new one and behave
    // like one for all continuations of three feeds (with polls)
    fn huge_storm<S: Scanner>(chk: &Check, timeout: u64, prefix: &[(u8, u8)], ctrls: &[u8]) {
        use std::hint::black_box;
        let t0 = std::time::Instant::now();
        set_clock(0);
        let mut sc = S::make(timeout);
        for ch in [0u8, 15] {
            for &(c, v) in prefix {
                let _ = sc.feed_msg(&cc(ch, c, v));
            }
        }
        let n: u64 = 1 << 32;
        for _ in 0..n {
            black_box(&mut sc).reset_all();
        }
        let fresh = S::make(timeout);
        if sc != fresh {
            chk.violate(Violation::new("reset-equals-new", format!("C17/{}/reset-equals-new/after-2^32-resets", S::NAME), format!("progress {:?} on channels 0 and 15, then 2^32 resets: the scanner is not == a new one: {:?}", prefix, sc)));
        }
        for ch in [0u8, 15] {
            if let Some(d) = post_reset_differential(&sc, &fresh, ch, ctrls, 3, S::POLLS) {
                chk.violate(Violation::new("reset-behaves-like-new", format!("C17/{}/reset-behaves-like-new/after-2^32-resets", S::NAME), format!("progress {:?} on channels 0 and 15, then 2^32 resets; channel {}: {}", prefix, ch, d)));
            }
        }
        chk.add_eval(n);
        chk.push("reset_storm_2_pow_32", json!({"scanner": S::NAME, "resets": n, "wall_s": t0.elapsed().as_secs_f64()}));
    }
    // thorough tier: 2^32 - 10 messages on another channel (a 32-bit message counter is about to
    // wrap), progress on channels 0 and 15, 20 more messages (it has wrapped), reset: the scanner must
    // == a new one and behave like one
    fn huge_traffic<S: Scanner>(chk: &Check, timeout: u64, prefix: &[(u8, u8)], ctrls: &[u8], filler: (u8, u8)) {
        use std::hint::black_box;
        let t0 = std::time::Instant::now();
        set_clock(0);
        let mut sc = S::make(timeout);
        let other = cc(7, filler.0, filler.1);
        let n: u64 = (1 << 32) - 10;
        for _ in 0..n {
            black_box(black_box(&mut sc).feed_msg(&other));
        }
        for ch in [0u8, 15] {
            for &(c, v) in prefix {
                let _ = sc.feed_msg(&cc(ch, c, v));
            }
        }
        for _ in 0..20 {
            black_box(black_box(&mut sc).feed_msg(&other));
        }
        sc.reset_all();
        let fresh = S::make(timeout);
        if sc != fresh {
            chk.violate(Violation::new("reset-equals-new", format!("C17/{}/reset-equals-new/after-2^32-messages", S::NAME), format!("2^32-10 messages on channel 7, progress {:?} on channels 0 and 15, 20 more messages, reset(): the scanner is not == a new one: {:?}", prefix, sc)));
        }
        for ch in [0u8, 15] {
            if let Some(d) = post_reset_differential(&sc, &fresh, ch, ctrls, 3, S::POLLS) {
                chk.violate(Violation::new("reset-behaves-like-new", format!("C17/{}/reset-behaves-like-new/after-2^32-messages", S::NAME), format!("2^32-10 messages on channel 7, progress {:?} on channels 0 and 15, 20 more messages, reset(); channel {}: {}", prefix, ch, d)));
            }
        }
        chk.add_eval(n + 20);
        chk.push("traffic_2_pow_32", json!({"scanner": S::NAME, "messages": n + 20, "wall_s": t0.elapsed().as_secs_f64()}));
    }
}

/// Scanner part of C03: at every state of the scanner fixpoints every alphabet message is fed in
/// all four representations.
pub fn run_c03_scanners(chk: &Check, tier: Tier) {
    chk.rule("scanners as consumers of the trait: at every state of the abstract fixpoints of the three scanners, every alphabet message (contributing and non-contributing) is fed as RawShortMessage, StructuredShortMessage, Foreign3 and ForeignBytes to copies: equal reports and == successor states");
    let rep = Report { repr: true, ..Default::default() };
    for &c in &quick_channels(tier) {
        let sys = c08_system("C03", c, rep, &V3);
        let out = xs::explore(&sys, &Limits::default());
        engine::record(chk, &sys, &out, None);
        let sys = c11_system("C03", c, rep, &V3, false);
        let out = xs::explore(&sys, &Limits::default());
        engine::record(chk, &sys, &out, None);
        #[cfg(feature = "polling")]
        {
            let sys = PollSys::new("C03", c, 2, 1, &V3, false, PReport { repr: true, ..Default::default() });
            let out = xs::explore(&sys, &Limits::default());
            engine::record(chk, &sys, &out, None);
        }
    }
}
