//! C09 ((N)RPN encoder), C10 (non-polling scanner inverts the encoder from every reachable state),
//! C11 (fixpoint of the non-polling scanner against the statement's reference model).
#![allow(dead_code)]
use crate::midi::*;
use crate::scan::*;
use helgoboss_midi::*;
use rayon::prelude::*;
use serde_json::json;
use std::sync::atomic::{AtomicU64, Ordering};
use std::time::{Duration, Instant};
use xs::{catch, engine, Check, Limits, Tier, Violation};

// ---------------------------------------------------------------------------------------------
// reference description of a ParameterNumberMessage
// ---------------------------------------------------------------------------------------------

#[derive(Clone, Copy, PartialEq, Eq, Debug, Hash)]
pub enum Kind {
    Entry7,
    Entry14,
    Inc,
    Dec,
}

#[derive(Clone, Copy, PartialEq, Eq, Debug, Hash)]
pub struct Pnm {
    pub ch: u8,
    pub number: u16,
    pub value: u16,
    pub reg: bool,
    pub kind: Kind,
}

impl Pnm {
    pub fn build(&self) -> ParameterNumberMessage {
        let c = ch(self.ch);
        let n = u14(self.number);
        use ParameterNumberMessage as P;
        match (self.kind, self.reg) {
            (Kind::Entry7, false) => P::non_registered_7_bit(c, n, u7(self.value as u8)),
            (Kind::Entry7, true) => P::registered_7_bit(c, n, u7(self.value as u8)),
            (Kind::Entry14, false) => P::non_registered_14_bit(c, n, u14(self.value)),
            (Kind::Entry14, true) => P::registered_14_bit(c, n, u14(self.value)),
            (Kind::Inc, false) => P::non_registered_increment(c, n, u7(self.value as u8)),
            (Kind::Inc, true) => P::registered_increment(c, n, u7(self.value as u8)),
            (Kind::Dec, false) => P::non_registered_decrement(c, n, u7(self.value as u8)),
            (Kind::Dec, true) => P::registered_decrement(c, n, u7(self.value as u8)),
        }
    }
    pub fn tup(&self) -> Tup {
        [
            self.ch as u32,
            self.number as u32,
            self.value as u32,
            self.reg as u32,
            (self.kind == Kind::Entry14) as u32,
            match self.kind {
                Kind::Entry7 | Kind::Entry14 => 0,
                Kind::Inc => 1,
                Kind::Dec => 2,
            },
        ]
    }
    /// The well-formed Control Change sequence as (controller, value) pairs, from the statement.
    pub fn encoding(&self, lsb_first: bool) -> Vec<(u8, u8)> {
        let (cm, cl) = if self.reg { (101u8, 100u8) } else { (99, 98) };
        let mut v = vec![(cm, (self.number >> 7) as u8), (cl, (self.number & 0x7f) as u8)];
        match self.kind {
            Kind::Entry7 => v.push((6, self.value as u8)),
            Kind::Inc => v.push((96, self.value as u8)),
            Kind::Dec => v.push((97, self.value as u8)),
            Kind::Entry14 => {
                let hi = (6u8, (self.value >> 7) as u8);
                let lo = (38u8, (self.value & 0x7f) as u8);
                if lsb_first {
                    v.push(lo);
                    v.push(hi);
                } else {
                    v.push(hi);
                    v.push(lo);
                }
            }
        }
        v
    }
}

pub fn boundary14() -> Vec<u16> {
    vec![0, 1, 2, 63, 64, 126, 127, 128, 129, 8191, 8192, 16256, 16382, 16383]
}
pub fn boundary7() -> Vec<u16> {
    vec![0, 1, 2, 63, 64, 126, 127]
}
pub const KINDS: [Kind; 4] = [Kind::Entry7, Kind::Entry14, Kind::Inc, Kind::Dec];

macro_rules! vio {
    ($chk:expr, $id:expr, $rule:expr, $cls:expr, $case:expr, $detail:expr) => {{
        let sig = format!("{}/{}/{}", $id, $rule, $cls).replace(' ', "_");
        if !$chk.flooded(&sig) {
            $chk.violate(Violation::new($rule, sig, $detail).with_case($case));
        }
    }};
}

// ---------------------------------------------------------------------------------------------
// C09
// ---------------------------------------------------------------------------------------------

fn slots<T: ShortMessage>(a: &[Option<T>; 4]) -> [Option<(u8, u8, u8)>; 4] {
    let f = |x: &Option<T>| x.as_ref().map(|m| {
        let b = m.to_bytes();
        (b.0, b.1.get(), b.2.get())
    });
    [f(&a[0]), f(&a[1]), f(&a[2]), f(&a[3])]
}

/// Expected slots without allocating: (slots, number of filled slots).
#[inline]
fn expected_slots(p: &Pnm, lsb_first: bool) -> [Option<(u8, u8, u8)>; 4] {
    let st = 0xB0 | p.ch;
    let (cm, cl) = if p.reg { (101u8, 100u8) } else { (99, 98) };
    let mut w: [Option<(u8, u8, u8)>; 4] = [Some((st, cm, (p.number >> 7) as u8)), Some((st, cl, (p.number & 0x7f) as u8)), None, None];
    match p.kind {
        Kind::Entry7 => w[2] = Some((st, 6, p.value as u8)),
        Kind::Inc => w[2] = Some((st, 96, p.value as u8)),
        Kind::Dec => w[2] = Some((st, 97, p.value as u8)),
        Kind::Entry14 => {
            let hi = Some((st, 6u8, (p.value >> 7) as u8));
            let lo = Some((st, 38u8, (p.value & 0x7f) as u8));
            if lsb_first {
                w[2] = lo;
                w[3] = hi;
            } else {
                w[2] = hi;
                w[3] = lo;
            }
        }
    }
    w
}

#[inline]
fn c09_one(chk: &Check, p: &Pnm) {
    let m = p.build();
    let acc = tup_pnm(&m);
    if acc != p.tup() {
        vio!(chk, "C09", "accessors-return-arguments", &format!("{:?}", p.kind), format!("pnm|{:?}", p), format!("{:?}: accessors report {:?}, expected {:?}", p, acc, p.tup()));
    }
    let consistent = match p.kind {
        Kind::Entry14 => m.is_14_bit() && m.data_type() == DataType::DataEntry,
        _ => !m.is_14_bit() && m.value().get() <= 127,
    };
    if !consistent {
        vio!(chk, "C09", "resolution-consistent", &format!("{:?}", p.kind), format!("pnm|{:?}", p), format!("{:?}: is_14_bit={} value={} data_type={:?}", p, m.is_14_bit(), m.value().get(), m.data_type()));
    }
    for (lsb_first, order) in [(false, DataEntryByteOrder::MsbFirst), (true, DataEntryByteOrder::LsbFirst)] {
        let want = expected_slots(p, lsb_first);
        let r: [Option<RawShortMessage>; 4] = m.to_short_messages(order);
        let s: [Option<StructuredShortMessage>; 4] = m.to_short_messages(order);
        if slots(&r) != want {
            vio!(chk, "C09", "encoding", &format!("{:?}/{:?}/Raw", p.kind, order), format!("pnm|{:?}|{}", p, lsb_first), format!("{:?} {:?}: encodes to {:?}, expected {:?}", p, order, slots(&r), want));
        }
        if slots(&s) != want {
            vio!(chk, "C09", "encoding", &format!("{:?}/{:?}/Structured", p.kind, order), format!("pnm|{:?}|{}", p, lsb_first), format!("{:?} {:?}: encodes to {:?}, expected {:?}", p, order, slots(&s), want));
        }
        // a third-party target type whose own from_bytes refuses everything: the encoder must not route through it
        let f: [Option<ForeignRefusing>; 4] = m.to_short_messages(order);
        if slots(&f) != want {
            vio!(chk, "C09", "encoding", &format!("{:?}/{:?}/ForeignRefusing", p.kind, order), format!("pnm|{:?}|{}", p, lsb_first), format!("{:?} {:?}: encodes to {:?} for a third-party target type, expected {:?}", p, order, slots(&f), want));
        }
        if want[3].is_some() != (p.kind == Kind::Entry14) {
            vio!(chk, "C09", "harness-self-check", "slots", String::new(), "harness encoding table inconsistent".to_string());
        }
        if !lsb_first {
            let r2: [Option<RawShortMessage>; 4] = m.into();
            let s2: [Option<StructuredShortMessage>; 4] = m.into();
            if slots(&r2) != want || slots(&s2) != want {
                vio!(chk, "C09", "array-conversion-equals-msb-first", &format!("{:?}", p.kind), format!("pnm|{:?}", p), format!("{:?}: From<..> for [Option<T>;4] gives {:?} / {:?}, MSB-first is {:?}", p, slots(&r2), slots(&s2), want));
            }
        }
    }
}

/// History independence of the (pure) encoder: every ORDERED PAIR of messages (a, b) over a
/// boundary domain, on one thread: the six encoding calls are made for `a` and then for `b`, and
/// b's results are judged. A result cached from the previous call under a key that does not
/// separate the two messages shows here and nowhere in a sweep that judges each message alone.
fn c09_pairs(chk: &Check, tier: Tier) -> u64 {
    let chans: Vec<u8> = if tier.thorough() { (0..16).collect() } else { vec![0, 1, 2, 7, 8, 14, 15] };
    let numbers: Vec<u16> = vec![0, 1, 127, 128, 129, 8191, 8192, 8193, 16256, 16383];
    let v14: Vec<u16> = vec![0, 1, 127, 128, 8192, 16383];
    let v7: Vec<u16> = vec![0, 1, 127];
    let mut dom: Vec<Pnm> = Vec::new();
    for &c in &chans {
        for &number in &numbers {
            for reg in [false, true] {
                for &value in &v14 {
                    dom.push(Pnm { ch: c, number, value, reg, kind: Kind::Entry14 });
                }
                for &value in &v7 {
                    for kind in [Kind::Entry7, Kind::Inc, Kind::Dec] {
                        dom.push(Pnm { ch: c, number, value, reg, kind });
                    }
                }
            }
        }
    }
    #[inline]
    fn calls(m: ParameterNumberMessage) -> [[Option<(u8, u8, u8)>; 4]; 6] {
        let a: [Option<RawShortMessage>; 4] = m.to_short_messages(DataEntryByteOrder::MsbFirst);
        let b: [Option<StructuredShortMessage>; 4] = m.to_short_messages(DataEntryByteOrder::MsbFirst);
        let c: [Option<RawShortMessage>; 4] = m.to_short_messages(DataEntryByteOrder::LsbFirst);
        let d: [Option<StructuredShortMessage>; 4] = m.to_short_messages(DataEntryByteOrder::LsbFirst);
        let e: [Option<RawShortMessage>; 4] = m.into();
        let f: [Option<StructuredShortMessage>; 4] = m.into();
        [slots(&a), slots(&b), slots(&c), slots(&d), slots(&e), slots(&f)]
    }
    let built: Vec<ParameterNumberMessage> = dom.iter().map(|p| p.build()).collect();
    let wants: Vec<[[Option<(u8, u8, u8)>; 4]; 2]> = dom.iter().map(|p| [expected_slots(p, false), expected_slots(p, true)]).collect();
    (0..dom.len()).into_par_iter().for_each(|i| {
        let r = catch(|| {
            for j in 0..dom.len() {
                let _ = std::hint::black_box(calls(built[i]));
                let got = calls(built[j]);
                let w = &wants[j];
                let want = [w[0], w[0], w[1], w[1], w[0], w[0]];
                if got != want {
                    let k = (0..6).find(|k| got[*k] != want[*k]).unwrap();
                    let what = ["to_short_messages::<Raw>(MsbFirst)", "to_short_messages::<Structured>(MsbFirst)", "to_short_messages::<Raw>(LsbFirst)", "to_short_messages::<Structured>(LsbFirst)", "Into<[Option<Raw>;4]>", "Into<[Option<Structured>;4]>"][k];
                    vio!(chk, "C09", "encoding-depends-on-previous-call", what, format!("pnmpair|{:?}|{:?}", dom[i], dom[j]), format!("after encoding {:?}, {} of {:?} gives {:?}, expected {:?}", dom[i], what, dom[j], got[k], want[k]));
                }
            }
        });
        if let Err(p) = r {
            vio!(chk, "C09", "panics-on-valid-input", "encoder-pairs", format!("pnmpair|{:?}|*", dom[i]), format!("encoder panicked in the pair sweep after {:?}: {}", dom[i], p));
        }
    });
    let n = (dom.len() * dom.len()) as u64;
    chk.push("ordered_pairs", json!({"domain": dom.len(), "pairs": n}));
    n
}

pub fn run_c09(chk: &Check, tier: Tier) {
    chk.rule("8 constructors x 16 channels x numbers x values x 2 byte orders x {Raw, Structured} (+ array conversion): accessors and every slot of the encoding against the statement's layout. quick: all 16384 numbers x boundary values and all values x boundary numbers on every channel (each dimension complete, the others on boundaries); thorough: additionally the FULL number x value product (16384 x (16384 + 3x128) messages per registered flag) on channels 0 and 15 (the channel enters the encoding only through the status nibble). non-trivial = distinct messages evaluated whose number and value are both non-zero. History independence: every ordered pair of messages over a boundary domain (7 (16) channels x 10 numbers x both kinds x 15 value/type combinations) encoded back to back on one thread, the second judged");
    let t0 = Instant::now();
    let cap = Duration::from_secs(if tier.thorough() { 1200 } else { 120 });
    let evals = AtomicU64::new(0);
    let nontriv = AtomicU64::new(0);
    let capped = std::sync::atomic::AtomicBool::new(false);
    let b14 = boundary14();
    let b7 = boundary7();
    let work: Vec<(u8, bool)> = (0..16u8).flat_map(|c| [(c, false), (c, true)]).collect();
    work.par_iter().for_each(|&(c, reg)| {
        let r = catch(|| {
            let mut n = 0u64;
            let mut nt = 0u64;
            let mut run = |p: Pnm| {
                c09_one(chk, &p);
                n += 1;
                if p.number != 0 && p.value != 0 {
                    nt += 1;
                }
            };
            if tier.thorough() && (c == 0 || c == 15) {
                for number in 0..16384u16 {
                    if t0.elapsed() > cap {
                        capped.store(true, Ordering::Relaxed);
                        break;
                    }
                    for value in 0..16384u16 {
                        run(Pnm { ch: c, number, value, reg, kind: Kind::Entry14 });
                    }
                    for value in 0..128u16 {
                        for kind in [Kind::Entry7, Kind::Inc, Kind::Dec] {
                            run(Pnm { ch: c, number, value, reg, kind });
                        }
                    }
                }
            } else {
                for number in 0..16384u16 {
                    for &value in &b14 {
                        run(Pnm { ch: c, number, value, reg, kind: Kind::Entry14 });
                    }
                    for &value in &b7 {
                        for kind in [Kind::Entry7, Kind::Inc, Kind::Dec] {
                            run(Pnm { ch: c, number, value, reg, kind });
                        }
                    }
                }
                for &number in &b14 {
                    for value in 0..16384u16 {
                        run(Pnm { ch: c, number, value, reg, kind: Kind::Entry14 });
                    }
                    for value in 0..128u16 {
                        for kind in [Kind::Entry7, Kind::Inc, Kind::Dec] {
                            run(Pnm { ch: c, number, value, reg, kind });
                        }
                    }
                }
            }
            (n, nt)
        });
        match r {
            Ok((n, nt)) => {
                evals.fetch_add(n, Ordering::Relaxed);
                nontriv.fetch_add(nt, Ordering::Relaxed);
            }
            Err(p) => vio!(chk, "C09", "panics-on-valid-input", "encoder", format!("pnmrow|{}|{}", c, reg), format!("constructors/encoder panicked on channel {} registered={}: {}", c, reg, p)),
        }
    });
    if capped.load(Ordering::Relaxed) {
        chk.not_exhaustive(&format!("C09 wall cap {:?} hit: only a prefix of the number range was completed on some channels ({} messages evaluated)", cap, evals.load(Ordering::Relaxed)));
    }
    chk.add_eval(evals.load(Ordering::Relaxed));
    chk.add_nontrivial(nontriv.load(Ordering::Relaxed));
    let pairs = c09_pairs(chk, tier);
    chk.add_eval(pairs);
    chk.sample(json!({"message": "registered_14_bit(ch 3, number 421, value 15000)", "MsbFirst": [[0xB3, 101, 3], [0xB3, 100, 37], [0xB3, 6, 117], [0xB3, 38, 24]], "LsbFirst": [[0xB3, 101, 3], [0xB3, 100, 37], [0xB3, 38, 24], [0xB3, 6, 117]]}));
    chk.sample(json!({"message": "non_registered_decrement(ch 0, number 16383, value 127)", "slots": [[0xB0, 99, 127], [0xB0, 98, 127], [0xB0, 97, 127], null]}));
}

// ---------------------------------------------------------------------------------------------
// C11: reference model and system
// ---------------------------------------------------------------------------------------------

#[derive(Clone, Copy, PartialEq, Eq, Hash, Debug, Default)]
pub struct NModel {
    pub msb: Option<u8>,
    pub lsb: Option<u8>,
    pub reg: bool,
    pub v38: Option<u8>,
}

pub struct NrpnOracle;

impl PlainOracle for NrpnOracle {
    type Sc = ParameterNumberMessageScanner;
    type M = NModel;
    fn init(&self) -> NModel {
        NModel::default()
    }
    fn on_cc(&self, m: &NModel, ch: u8, ctrl: u8, val: u8) -> (NModel, Option<Tup>) {
        let mut n = *m;
        let number = match (m.msb, m.lsb) {
            (Some(a), Some(b)) => Some(a as u32 * 128 + b as u32),
            _ => None,
        };
        let mut want = None;
        match ctrl {
            99 | 101 => {
                n.msb = Some(val);
                n.reg = ctrl == 101;
                n.v38 = None;
            }
            98 | 100 => {
                n.lsb = Some(val);
                n.reg = ctrl == 100;
                n.v38 = None;
            }
            38 => n.v38 = Some(val),
            6 => {
                if let Some(num) = number {
                    want = Some(match m.v38 {
                        Some(l) => [ch as u32, num, val as u32 * 128 + l as u32, m.reg as u32, 1, 0],
                        None => [ch as u32, num, val as u32, m.reg as u32, 0, 0],
                    });
                }
            }
            96 | 97 => {
                if let Some(num) = number {
                    want = Some([ch as u32, num, val as u32, m.reg as u32, 0, if ctrl == 96 { 1 } else { 2 }]);
                }
            }
            _ => {}
        }
        (n, want)
    }
    fn class_of_ctrl(ctrl: u8) -> &'static str {
        match ctrl {
            98..=101 => "number-byte",
            38 => "data-entry-lsb",
            6 => "data-entry-msb",
            96 | 97 => "inc-dec",
            _ => "other-controller",
        }
    }
}

pub const CONTRIB: [u8; 8] = [98, 99, 100, 101, 38, 6, 96, 97];
pub const V3: [u8; 3] = [0, 1, 127];
pub const V8: [u8; 8] = [0, 1, 2, 63, 64, 85, 126, 127];

pub fn c11_system(pid: &'static str, ch: u8, report: Report, values: &[u8], concretise: bool) -> PlainSys<NrpnOracle> {
    let mut sys = PlainSys::new(pid, NrpnOracle, ch, report);
    for &c in &CONTRIB {
        for &v in values {
            sys.alphabet.push((c, v));
        }
    }
    if concretise {
        for &c in &CONTRIB {
            for v in 0..128u8 {
                if !values.contains(&v) {
                    sys.probes.push((c, v));
                }
            }
        }
    }
    sys.others = noncontrib_small::<ParameterNumberMessageScanner>(ch);
    sys
}

pub fn run_c11(chk: &Check, tier: Tier) {
    chk.rule("reachability fixpoint of the real ParameterNumberMessageScanner on one channel x the statement's reference model (latest number MSB/LSB, kind of the most recent number byte, controller-38 value since the last number byte); every transition calls the real feed/reset and compares the report with the model. quick: byte domain {0,1,127} for expansion + every one of the 8x128 concrete contributing inputs applied once from every reached state (concretisation probes); thorough: additionally the COMPLETE CONCRETE fixpoint (all 8x128 inputs expanded) on one channel");
    chk.assume("byte-value abstraction in the quick tier (DESIGN 3.3): expansion over V={0,1,127}, all 128 values as one-step probes");
    let channels: Vec<u8> = if tier.thorough() { (0..16).collect() } else { vec![0, 9, 15] };
    let vals: &[u8] = if tier.thorough() { &V8 } else { &V3 };
    for &c in &channels {
        let mut sys = c11_system("C11", c, Report { oracle: true, ..Default::default() }, vals, true).with_pumps(&CONTRIB, 3);
        sys.storms = vec![(256, false), (65536, false), (65536, true)];
        if c == channels[0] {
            // the 8 + 64 cycles of length <= 2 come first: 70000 rounds each (a 16-bit counter driven
            // by feeds wraps on the way, and every feed is judged), from states within two steps of
            // the initial state
            sys.long_pumps = 72;
        }
        let out = xs::explore(&sys, &Limits::default());
        engine::record(chk, &sys, &out, None);
        if tier.thorough() && out.found.is_empty() && chk.violation_count() == 0 {
            let plain = c11_system("C11", c, Report { oracle: true, ..Default::default() }, vals, false);
            let xs_plain = xs::explore(&plain, &Limits { restoration_check: false, ..Default::default() });
            let r = xs::sr::run(std::sync::Arc::new(plain), xs::n_threads());
            let out = &xs_plain;
            chk.push("stateright_cross_check", json!({"channel": c, "xs_states": out.nodes.len(), "stateright_unique_states": r.unique_states, "stateright_violation": r.violation}));
            if r.unique_states != out.nodes.len() || r.violation {
                chk.machinery_error(format!("stateright disagrees with xs on channel {}: {} vs {} states, violation={}", c, r.unique_states, out.nodes.len(), r.violation));
            }
        }
    }
    if tier.thorough() {
        let all: Vec<u8> = (0..128).collect();
        let mut sys = c11_system("C11", 5, Report { oracle: true, ..Default::default() }, &all, false);
        sys.others.truncate(12);
        let out = xs::explore(&sys, &Limits { max_states: 6_000_000, max_wall: Duration::from_secs(1500), ..Default::default() });
        engine::record(chk, &sys, &out, None);
    }
}

// ---------------------------------------------------------------------------------------------
// C10
// ---------------------------------------------------------------------------------------------

/// Feed `seq` (controller, value) pairs on channel c to a copy of `st`; `expect[i]` is what feed
/// i must return.
fn c10_feed(chk: &Check, st: &ParameterNumberMessageScanner, c: u8, seq: &[(u8, u8)], expect: &[Option<Tup>], what: &str, case: &dyn Fn() -> String) {
    let mut sc = *st;
    for (i, (ctrl, val)) in seq.iter().enumerate() {
        let got = sc.feed(&cc(c, *ctrl, *val)).map(|m| tup_pnm(&m));
        if got != expect[i] {
            let cls = match (&got, &expect[i]) {
                (Some(_), None) => "early-report",
                (None, Some(_)) => "missing-report",
                _ => "wrong-message",
            };
            vio!(chk, "C10", "scanner-inverts-encoder", &format!("{}/{}", what, cls), case(),
                format!("prior scanner state {:?}; feeding {:?} on channel {}: feed #{} (CC {} ={}) returned {:?}, expected {:?}", st, seq, c, i, ctrl, val, got.map(|t| pnm_str(&t)), expect[i].map(|t| pnm_str(&t))));
            return;
        }
    }
}

fn c10_message(chk: &Check, st: &ParameterNumberMessageScanner, si: usize, p: &Pnm) {
    // the documented encodings: MSB-first for 7-bit/inc/dec, LSB-first for 14-bit
    let enc = p.encoding(p.kind == Kind::Entry14);
    // go through the real encoder too, so that encoder and scanner are checked as a pair
    let m = p.build();
    let real: [Option<RawShortMessage>; 4] = m.to_short_messages(if p.kind == Kind::Entry14 { DataEntryByteOrder::LsbFirst } else { DataEntryByteOrder::MsbFirst });
    let mut sc = *st;
    let mut outs = Vec::new();
    for sm in real.iter().flatten() {
        outs.push(sc.feed(sm));
    }
    let n = outs.len();
    let ok = n == enc.len() && outs[..n - 1].iter().all(|o| o.is_none()) && outs[n - 1] == Some(m);
    if ok && si % 4 == 0 && si < 100_000 {
        // "regardless of what the scanner was fed before" includes hundreds of earlier messages:
        // the same encoding 300 more times on the same scanner, each must report the original
        for round in 0..300u32 {
            let mut last = None;
            let mut early = false;
            let k = real.iter().flatten().count();
            for (i, sm) in real.iter().flatten().enumerate() {
                let o = sc.feed(sm);
                if i + 1 < k && o.is_some() {
                    early = true;
                }
                last = o;
            }
            if early || last != Some(m) {
                vio!(chk, "C10", "scanner-inverts-encoder", &format!("{:?}/repeated-message", p.kind), format!("c10rep|state{}|{:?}|{}", si, p, round),
                    format!("prior scanner state {:?}; the encoding of {:?} fed {} times in a row: round {} returned {:?} on its last Control Change (early report: {})", st, p, round + 2, round + 2, last, early));
                break;
            }
        }
    }
    if !ok {
        let cls = if outs[..n.saturating_sub(1)].iter().any(|o| o.is_some()) { "early-report" } else if outs.last().map_or(true, |o| o.is_none()) { "missing-report" } else { "wrong-message" };
        vio!(chk, "C10", "scanner-inverts-encoder", &format!("{:?}/{}", p.kind, cls), format!("c10|state{}|{:?}", si, p),
            format!("prior scanner state {:?}; feeding the encoding of {:?} returned {:?}", st, p, outs));
    }
}

fn message_set(c: u8, numbers: &[u16], v14: &[u16], v7: &[u16]) -> Vec<Pnm> {
    let mut v = Vec::new();
    for &number in numbers {
        for reg in [false, true] {
            for &value in v14 {
                v.push(Pnm { ch: c, number, value, reg, kind: Kind::Entry14 });
            }
            for &value in v7 {
                for kind in [Kind::Entry7, Kind::Inc, Kind::Dec] {
                    v.push(Pnm { ch: c, number, value, reg, kind });
                }
            }
        }
    }
    v
}

/// Representative dirty prior states (part (b)).
fn dirty_states(c: u8) -> Vec<(String, ParameterNumberMessageScanner)> {
    let mut v = Vec::new();
    let fresh = ParameterNumberMessageScanner::new();
    v.push(("fresh".to_string(), fresh));
    let mut a = fresh;
    for (k, x) in [(101u8, 5u8), (100, 6), (38, 77), (6, 78)] {
        a.feed(&cc(c, k, x));
    }
    let mut r = a;
    r.reset();
    v.push(("after-reset".to_string(), r));
    v.push(("all-slots-registered".to_string(), a));
    let mut b = fresh;
    for (k, x) in [(99u8, 9u8), (98, 10), (38, 99)] {
        b.feed(&cc(c, k, x));
    }
    v.push(("all-slots-non-registered-stale-lsb".to_string(), b));
    v
}

pub fn run_c10(chk: &Check, tier: Tier) {
    chk.rule("(a) EVERY state of the abstract reachability fixpoint of the real scanner (all set/unset combinations of all slots, both kinds) x ~2000 messages (numbers and values on boundary sets, all 4 kinds, both registered flags): feed the real encoder's output (MSB-first for 7-bit/inc/dec, LSB-first for 14-bit) to a copy: nothing until the last Control Change, exactly the original on it. (b) four representative dirty prior states x per-dimension complete message sets (quick) / all messages of the channel (thorough). (c) running forms x,y,(data)^k k<=4 with every assignment of {7-bit,inc,dec} and x,y,(LSB,MSB)^k k<=3 from every state of (a). non-trivial = distinct (prior state, message) cases whose prior state has at least one occupied slot");
    let channels: Vec<u8> = if tier.thorough() { (0..16).collect() } else { vec![0, 9, 15] };
    let vals: &[u8] = if tier.thorough() { &V8 } else { &V3 };
    let nontrivial = AtomicU64::new(0);
    for &c in &channels {
        let sys = c11_system("C10", c, Report::default(), vals, false).with_pumps(&CONTRIB, 3);
        let out = xs::explore(&sys, &Limits::default());
        engine::record(chk, &sys, &out, None);
        if out.nodes.len() > 20_000 {
            chk.not_exhaustive(&format!("C10 channel {}: {} reachable states, inversion run from the 20000 shallowest only", c, out.nodes.len()));
        }
        let states: Vec<ParameterNumberMessageScanner> = out.nodes.iter().take(20_000).map(|n| n.state.sc).collect();
        let fresh = ParameterNumberMessageScanner::new();
        // (a)
        let msgs = message_set(c, &boundary14(), &boundary14(), &boundary7());
        states.par_iter().enumerate().for_each(|(si, st)| {
            let r = catch(|| {
                for p in &msgs {
                    c10_message(chk, st, si, p);
                }
            });
            if let Err(e) = r {
                vio!(chk, "C10", "panics-on-valid-input", "inversion", format!("c10|state{}", si), format!("inversion from state {:?} panicked: {}", st, e));
            }
            if *st != fresh {
                nontrivial.fetch_add(msgs.len() as u64, Ordering::Relaxed);
            }
        });
        chk.add_eval((states.len() * msgs.len()) as u64);
        // (c) running forms from every state of (a)
        let data_kinds = [(6u8, 0u32), (96, 1), (97, 2)];
        let n_running = AtomicU64::new(0);
        states.par_iter().enumerate().for_each(|(si, st)| {
            let mut n = 0u64;
            for reg in [false, true] {
                let (cm, cl) = if reg { (101u8, 100u8) } else { (99, 98) };
                for &(x, y) in &[(3u8, 37u8), (0, 0), (127, 127), (1, 0)] {
                    let number = x as u32 * 128 + y as u32;
                    // x,y,(data)^k: all assignments of kinds, values cycling through the domain
                    for k in 1..=4usize {
                        let combos = 3usize.pow(k as u32);
                        for combo in 0..combos {
                            let mut seq = vec![(cm, x), (cl, y)];
                            let mut exp: Vec<Option<Tup>> = vec![None, None];
                            let mut cc_ = combo;
                            for i in 0..k {
                                let (ctrl, dt) = data_kinds[cc_ % 3];
                                cc_ /= 3;
                                let val = vals[(i + combo) % vals.len()];
                                seq.push((ctrl, val));
                                exp.push(Some([c as u32, number, val as u32, reg as u32, 0, dt]));
                            }
                            c10_feed(chk, st, c, &seq, &exp, "running-data", &|| format!("c10run|state{}|{:?}", si, seq));
                            n += 1;
                        }
                    }
                    // x,y,(LSB,MSB)^k
                    for k in 1..=3usize {
                        for rot in 0..vals.len() {
                            let mut seq = vec![(cm, x), (cl, y)];
                            let mut exp: Vec<Option<Tup>> = vec![None, None];
                            for i in 0..k {
                                let l = vals[(rot + 2 * i) % vals.len()];
                                let h = vals[(rot + 2 * i + 1) % vals.len()];
                                seq.push((38, l));
                                exp.push(None);
                                seq.push((6, h));
                                exp.push(Some([c as u32, number, h as u32 * 128 + l as u32, reg as u32, 1, 0]));
                            }
                            c10_feed(chk, st, c, &seq, &exp, "running-lsb-msb", &|| format!("c10run|state{}|{:?}", si, seq));
                            n += 1;
                        }
                    }
                }
            }
            n_running.fetch_add(n, Ordering::Relaxed);
            if *st != fresh {
                nontrivial.fetch_add(n, Ordering::Relaxed);
            }
        });
        chk.add_eval(n_running.load(Ordering::Relaxed));
        // (b)
        let dirty = dirty_states(c);
        let all14: Vec<u16> = (0..16384).collect();
        let all7: Vec<u16> = (0..128).collect();
        let mut n_b = 0u64;
        for (name, st) in &dirty {
            let sets: Vec<Vec<Pnm>> = if tier.thorough() && c == channels[0] {
                // all messages of the channel, number range split for parallelism
                (0..64u16).map(|blk| message_set(c, &((blk * 256)..((blk + 1) * 256)).collect::<Vec<_>>(), &all14, &all7)).collect()
            } else {
                vec![message_set(c, &all14, &boundary14(), &boundary7()), message_set(c, &boundary14(), &all14, &all7)]
            };
            for set in sets {
                let bad = catch(|| {
                    set.par_chunks(4096).for_each(|chunk| {
                        for p in chunk {
                            c10_message(chk, st, 100_000, p);
                        }
                    })
                });
                if let Err(e) = bad {
                    vio!(chk, "C10", "panics-on-valid-input", "inversion-dirty", format!("c10dirty|{}", name), format!("inversion from dirty state {} panicked: {}", name, e));
                }
                n_b += set.len() as u64;
                if *st != fresh {
                    nontrivial.fetch_add(set.len() as u64, Ordering::Relaxed);
                }
            }
        }
        chk.add_eval(n_b);
        chk.push("inversion", json!({"channel": c, "abstract_prior_states": states.len(), "messages_per_state": msgs.len(), "running_form_sequences": n_running.load(Ordering::Relaxed), "dirty_state_cases": n_b}));
    }
    chk.add_nontrivial(nontrivial.load(Ordering::Relaxed));
    chk.sample(json!({"prior_state": "number 5/6 registered, stale data LSB 77 stored", "message": "non_registered_7_bit(ch 0, 421, 126)", "feeds": ["CC 99 =3 -> None", "CC 98 =37 -> None", "CC 6 =126 -> Some(original)"]}));
    chk.sample(json!({"running_form": "CC 101 =3, CC 100 =37, CC 38 =0, CC 6 =1, CC 38 =127, CC 6 =0", "expected_reports": ["-", "-", "-", "RPN-14bit(421, 128)", "-", "RPN-14bit(421, 127)"]}));
}
