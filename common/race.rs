//! Concurrent use (supplementary, NOT exhaustive): the crate has no shared mutable state on the
//! current tree, so every API function is trivially thread-safe and a single-threaded exploration
//! decides the properties. A change that introduces process-wide state (a memo in a `static`, a
//! lazily filled table) is outside what those explorations can see, and outside what a controlled
//! scheduler could intercept here (the crate uses no synchronisation primitive that could be
//! swapped for loom's or shuttle's). What this file does instead is SAMPLE schedules: child
//! processes (so that "first use" happens again each time) in which 16 free-running threads, released
//! together, classify messages and encode (N)RPN / 14-bit CC messages and compare every result
//! with the table oracle. A mismatch is a real violation (single-threaded reference results are
//! schedule independent); silence proves nothing about schedules not sampled.
use crate::midi::*;
use helgoboss_midi::*;
use std::sync::atomic::{AtomicBool, AtomicU64, Ordering};
use std::sync::Arc;

const THREADS: usize = 16;

fn classify_ok(s: u8, d1: u8, d2: u8) -> Result<(), String> {
    let e = expect(s, d1, d2);
    let raw = RawShortMessage::from_bytes((s, u7(d1), u7(d2))).map_err(|_| format!("from_bytes({:#04X},{},{}) failed", s, d1, d2))?;
    let st = raw.to_structured();
    let f3 = Foreign3 { s, d1: u7(d1), d2: u7(d2) };
    let t = [u8::from(raw.r#type()), u8::from(st.r#type()), u8::from(f3.r#type())];
    if t.iter().any(|x| *x != e.type_byte) {
        return Err(format!("({:#04X},{},{}): type bytes {:02X?} (Raw, Structured, Foreign3), table says {:#04X}", s, d1, d2, t, e.type_byte));
    }
    let c = [raw.channel().map(|c| c.get()), st.channel().map(|c| c.get()), f3.channel().map(|c| c.get())];
    if c.iter().any(|x| *x != e.channel) {
        return Err(format!("({:#04X},{},{}): channels {:?}, table says {:?}", s, d1, d2, c, e.channel));
    }
    let b = st.to_bytes();
    if (b.0, b.1.get(), b.2.get()) != e.canon {
        return Err(format!("({:#04X},{},{}): structured bytes {:?}, table says {:?}", s, d1, d2, b, e.canon));
    }
    let back: RawShortMessage = st.to_other();
    let bb = back.to_bytes();
    if (bb.0, bb.1.get(), bb.2.get()) != e.canon {
        return Err(format!("({:#04X},{},{}): structured -> raw bytes {:?}, table says {:?}", s, d1, d2, bb, e.canon));
    }
    Ok(())
}

fn encode_ok(c: u8, number: u16, value: u16, reg: bool) -> Result<(), String> {
    let p = if reg { ParameterNumberMessage::registered_14_bit(ch(c), u14(number), u14(value)) } else { ParameterNumberMessage::non_registered_14_bit(ch(c), u14(number), u14(value)) };
    let st = 0xB0 | c;
    let (cm, cl) = if reg { (101u8, 100u8) } else { (99, 98) };
    let want = [(st, cm, (number >> 7) as u8), (st, cl, (number & 0x7f) as u8), (st, 6, (value >> 7) as u8), (st, 38, (value & 0x7f) as u8)];
    let a: [Option<RawShortMessage>; 4] = p.to_short_messages(DataEntryByteOrder::MsbFirst);
    let b: [Option<StructuredShortMessage>; 4] = p.into();
    for i in 0..4 {
        let x = a[i].map(|m| m.to_bytes()).map(|t| (t.0, t.1.get(), t.2.get()));
        let y = b[i].map(|m| m.to_bytes()).map(|t| (t.0, t.1.get(), t.2.get()));
        if x != Some(want[i]) || y != Some(want[i]) {
            return Err(format!("(N)RPN (ch {}, number {}, value {}, registered {}): slot {} is {:?} / {:?}, expected {:?}", c, number, value, reg, i, x, y, want[i]));
        }
    }
    let n = (number % 32) as u8;
    let m = ControlChange14BitMessage::new(ch(c), cn(n), u14(value));
    let r: [RawShortMessage; 2] = m.to_short_messages();
    let w = [(st, n, (value >> 7) as u8), (st, n + 32, (value & 0x7f) as u8)];
    for i in 0..2 {
        let t = r[i].to_bytes();
        if (t.0, t.1.get(), t.2.get()) != w[i] {
            return Err(format!("14-bit CC (ch {}, cn {}, {}): message {} is {:?}, expected {:?}", c, n, value, i, t, w[i]));
        }
    }
    Ok(())
}

/// Child process: never returns. Exit code 0 = all threads agreed with the table, 3 = mismatch
/// (printed as RACE-MISMATCH), anything else = the child itself failed.
pub fn race_child(seed: &str) -> ! {
    let seed: u64 = seed.parse().unwrap_or(0);
    let go = Arc::new(AtomicBool::new(false));
    let ready = Arc::new(AtomicU64::new(0));
    let mut hs = Vec::new();
    for k in 0..THREADS {
        let go = go.clone();
        let ready = ready.clone();
        hs.push(std::thread::spawn(move || -> Result<u64, String> {
            ready.fetch_add(1, Ordering::SeqCst);
            while !go.load(Ordering::Acquire) {
                std::hint::spin_loop();
            }
            // stagger the threads a little (differently in every process): a window that only opens
            // while one thread is a few dozen nanoseconds behind another needs it
            let stagger = [0usize, 1, 5, 40, 200][(seed % 5) as usize];
            for _ in 0..k * stagger {
                std::hint::spin_loop();
            }
            let mut n = 0u64;
            // the very first thing every thread does is classify a system message (a lazily built
            // table is at its most fragile then); every thread walks the status bytes in its own order
            let rot = ((k as u64 * 37 + seed * 11) % 128) as u8;
            for round in 0..4u8 {
                for i in 0..15u8 {
                    let s = 0xF1 + ((i as u32 + k as u32 + round as u32) % 15) as u8;
                    classify_ok(s, ((k as u32 * 3 + i as u32) % 128) as u8, i)?;
                    n += 1;
                }
            }
            for round in 0..40u32 {
                for i in 0..128u8 {
                    let s = 0x80 | (((0xFFu8.wrapping_sub(i)) ^ 0).wrapping_sub(rot) & 0x7F);
                    let d1 = ((round * 7 + k as u32) % 128) as u8;
                    let d2 = ((round * 13 + i as u32) % 128) as u8;
                    classify_ok(s, d1, d2)?;
                    n += 1;
                }
                for j in 0..64u16 {
                    let (j, k32) = (j as u32, k as u32);
                    let c = ((k32 + j) % 16) as u8;
                    let number = ((j * 257 + k32 * 8191 + round) % 16384) as u16;
                    let value = ((j * 129 + round * 61 + k32) % 16384) as u16;
                    encode_ok(c, number, value, (j + k32) % 2 == 0)?;
                    n += 1;
                }
            }
            Ok(n)
        }));
    }
    while ready.load(Ordering::SeqCst) < THREADS as u64 {
        std::hint::spin_loop();
    }
    go.store(true, Ordering::Release);
    let mut total = 0u64;
    let mut bad = None;
    for h in hs {
        match h.join() {
            Ok(Ok(n)) => total += n,
            Ok(Err(e)) => bad = Some(e),
            Err(_) => bad = Some("a thread panicked".to_string()),
        }
    }
    match bad {
        Some(e) => {
            println!("RACE-MISMATCH {}", e);
            std::process::exit(3)
        }
        None => {
            println!("RACE-OK {}", total);
            std::process::exit(0)
        }
    }
}

/// Parent: run `n` child processes; report the first mismatch as a violation of `id`.
pub fn race_probe(chk: &xs::Check, id: &str, n: u32) {
    let exe = match std::env::current_exe() {
        Ok(e) => e,
        Err(_) => return,
    };
    let mut calls = 0u64;
    let mut ran = 0u32;
    for i in 0..n {
        let out = std::process::Command::new(&exe).arg("race-probe").arg(i.to_string()).stderr(std::process::Stdio::null()).output();
        if let Ok(o) = out {
            let text = String::from_utf8_lossy(&o.stdout).to_string();
            if let Some(l) = text.lines().find(|l| l.starts_with("RACE-MISMATCH")) {
                chk.violate(xs::Violation::new("concurrent-use", format!("{}/concurrent-use/sampled-schedules", id), format!("with {} threads using the API at the same time in a fresh process (run {} of {}), a result differs from the single-threaded table: {}. (Schedule dependent: re-running samples other schedules.)", THREADS, i + 1, n, &l["RACE-MISMATCH ".len()..])));
                ran += 1;
                break;
            }
            if let Some(l) = text.lines().find(|l| l.starts_with("RACE-OK")) {
                calls += l["RACE-OK ".len()..].trim().parse::<u64>().unwrap_or(0);
                ran += 1;
            }
        }
    }
    chk.add_eval(calls);
    chk.push("concurrent_use_sampling", serde_json::json!({"processes": ran, "threads_per_process": THREADS, "judged_calls": calls, "nature": "SAMPLING of thread schedules (free-running threads), supplementary to the exhaustive single-threaded sweep; not a coverage claim"}));
}
