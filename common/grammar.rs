//! C12: the polling scanner decodes every documented sequence form.
//!
//! Part one: product of the real scanner (mock clock) with a GENERATOR AUTOMATON for the
//! documented sequence grammar. The generator decides which inputs are in the documented language
//! after the current prefix and what each step is intended to report; inputs outside the language
//! are simply not generated (the statement does not cover them; C13/C14 do).
//! Part two: encode -> feed -> poll after the timeout, from every state of the C14 fixpoint.
#![allow(dead_code)]
use crate::midi::*;
use crate::nrpn::{boundary14, boundary7, Kind, Pnm};
use crate::polling::*;
use crate::scan::*;
use core::time::Duration;
use helgoboss_midi::verif_hooks::set_now_millis;
use helgoboss_midi::*;
use rayon::prelude::*;
use serde_json::json;
use std::sync::atomic::{AtomicU64, Ordering};
use xs::{catch, engine, h64, Check, Limits, Step, System, Tier, Violation};

#[derive(Clone, Copy, PartialEq, Eq, Hash, Debug)]
pub enum Phase {
    Fresh,
    PendMsb(u8, u64),
    PendLsb(u8, u64),
    After14(u8),
    Neutral,
}

#[derive(Clone, Copy, PartialEq, Eq, Hash, Debug)]
pub enum G {
    Start,
    /// one number byte received: (is_msb, byte, registered)
    Half(bool, u8, bool),
    /// number selected
    Sel { msb: u8, lsb: u8, reg: bool, phase: Phase },
}

#[derive(Clone, PartialEq, Debug)]
pub enum GAct {
    Cc(u8, u8),
    Other(u8),
    Poll,
    Tick,
    /// long pause, index into `pauses`
    Pause(u8),
}

#[derive(Clone)]
pub struct GState {
    pub sc: PollingParameterNumberMessageScanner,
    pub now: u64,
    pub g: G,
}

pub struct GrammarSys {
    pub ch: u8,
    pub timeout: u64,
    pub timeout_us: u64,
    /// nanoseconds on top of `timeout_us` (a timeout need not be a whole number of microseconds either)
    pub timeout_sub_ns: u64,
    /// length of one clock tick in nanoseconds (1 ms unless `with_tick_us` is used); `now`, `timeout`,
    /// `cap`, ages and pauses are in ticks
    pub tick_ns: u64,
    pub exotic: Option<(Duration, &'static str)>,
    pub cap: u64,
    pub pauses: Vec<u64>,
    pub values: Vec<u8>,
    pub others: Vec<(u8, u8, u8)>,
}

impl GrammarSys {
    pub fn new(ch: u8, timeout: u64, values: &[u8]) -> Self {
        GrammarSys {
            ch,
            timeout,
            timeout_us: timeout.saturating_mul(1000),
            timeout_sub_ns: 0,
            tick_ns: 1_000_000,
            exotic: None,
            cap: cap_for(timeout, 1),
            pauses: if WRAP16.load(std::sync::atomic::Ordering::Relaxed) { vec![1000, (1 << 16) - 2, (1 << 20) + 100, 1 << 32] } else { vec![1000, (1 << 20) + 100, 1 << 32] },
            values: values.to_vec(),
            others: noncontrib_small::<PollingParameterNumberMessageScanner>(ch),
        }
    }
    pub fn with_exotic(mut self, d: Duration, label: &'static str) -> Self {
        self.timeout = T_INF;
        self.timeout_us = T_INF.saturating_mul(1000);
        self.cap = cap_for(T_INF, 1);
        self.exotic = Some((d, label));
        self
    }
    fn tname(&self) -> String {
        if let Some((_, l)) = self.exotic {
            return l.to_string();
        }
        if self.timeout >= T_INF { "inf".into() } else if self.timeout_sub_ns != 0 { format!("{}ns", self.timeout_ns()) } else if self.timeout_us % 1000 != 0 { format!("{}us", self.timeout_us) } else { format!("{}ms", self.timeout) }
    }
    pub fn with_timeout_us(mut self, us: u64) -> Self {
        self.timeout_us = us;
        self.timeout = (us + 999) / 1000;
        self.cap = cap_for(self.timeout, 1);
        self
    }
    fn expired(&self, age: u64) -> bool {
        (age as u128) * (self.tick_ns as u128) >= self.timeout_ns() as u128
    }
    pub fn timeout_ns(&self) -> u64 {
        self.timeout_us.saturating_mul(1000).saturating_add(self.timeout_sub_ns)
    }
    /// A timeout given in nanoseconds, on a clock whose tick is `tick_ns` nanoseconds.
    pub fn with_timeout_ns(mut self, ns: u64, tick_ns: u64) -> Self {
        assert!(self.exotic.is_none());
        self.timeout_us = ns / 1000;
        self.timeout_sub_ns = ns % 1000;
        self.tick_ns = tick_ns;
        self.timeout = (ns + tick_ns - 1) / tick_ns;
        self.cap = cap_for(self.timeout, 1);
        self.pauses = vec![(1 << 20) + 100];
        self
    }
    /// A finer clock (one tick = `tick_us` microseconds), so that polls fall between whole milliseconds.
    pub fn with_tick_us(mut self, tick_us: u64) -> Self {
        assert!(self.timeout < T_INF && self.exotic.is_none());
        self.tick_ns = tick_us * 1000;
        self.timeout = (self.timeout_us + tick_us - 1) / tick_us;
        self.cap = cap_for(self.timeout, 1);
        self.pauses = vec![(1 << 20) + 100];
        self
    }
    fn clock(&self, ticks: u64) {
        helgoboss_midi::verif_hooks::set_now_ticks(ticks, self.tick_ns);
    }
    fn vio(&self, rule: &str, cls: &str, detail: impl FnOnce() -> String) -> Violation {
        Violation::lazy(rule, format!("C12/{}/{}/T={}", rule, cls, self.tname()), detail)
    }
    fn msg7(&self, msb: u8, lsb: u8, reg: bool, v: u8) -> Tup {
        [self.ch as u32, msb as u32 * 128 + lsb as u32, v as u32, reg as u32, 0, 0]
    }
    fn msg14(&self, msb: u8, lsb: u8, reg: bool, h: u8, l: u8) -> Tup {
        [self.ch as u32, msb as u32 * 128 + lsb as u32, h as u32 * 128 + l as u32, reg as u32, 1, 0]
    }
    fn msgid(&self, msb: u8, lsb: u8, reg: bool, ctrl: u8, v: u8) -> Tup {
        [self.ch as u32, msb as u32 * 128 + lsb as u32, v as u32, reg as u32, 0, if ctrl == 96 { 1 } else { 2 }]
    }

    /// Generator transition for a contributing Control Change: `None` if the input is outside the
    /// documented language after this prefix, otherwise (next generator state, intended reports).
    pub fn gen_cc(&self, g: &G, now: u64, ctrl: u8, v: u8) -> Option<(G, Vec<Tup>)> {
        let is_number = matches!(ctrl, 98..=101);
        let num_is_msb = matches!(ctrl, 99 | 101);
        let num_reg = matches!(ctrl, 100 | 101);
        match g {
            G::Start => {
                if is_number {
                    Some((G::Half(num_is_msb, v, num_reg), vec![]))
                } else {
                    None
                }
            }
            G::Half(is_msb, byte, reg) => {
                if is_number && num_is_msb != *is_msb && num_reg == *reg {
                    let (msb, lsb) = if *is_msb { (*byte, v) } else { (v, *byte) };
                    Some((G::Sel { msb, lsb, reg: *reg, phase: Phase::Fresh }, vec![]))
                } else {
                    None
                }
            }
            G::Sel { msb, lsb, reg, phase } => {
                let (msb, lsb, reg) = (*msb, *lsb, *reg);
                let sel = |phase| G::Sel { msb, lsb, reg, phase };
                if is_number {
                    // a new selection starts; a pending lone MSB is flushed with the OLD number
                    return match phase {
                        Phase::PendMsb(a, _) => Some((G::Half(num_is_msb, v, num_reg), vec![self.msg7(msb, lsb, reg, *a)])),
                        Phase::PendLsb(..) => None,
                        _ => Some((G::Half(num_is_msb, v, num_reg), vec![])),
                    };
                }
                match (phase, ctrl) {
                    (Phase::Fresh, 6) => Some((sel(Phase::PendMsb(v, now)), vec![])),
                    (Phase::Fresh, 38) => Some((sel(Phase::PendLsb(v, now)), vec![])),
                    (Phase::Fresh, 96 | 97) => Some((sel(Phase::Neutral), vec![self.msgid(msb, lsb, reg, ctrl, v)])),
                    (Phase::PendMsb(a, _), 38) => Some((sel(Phase::After14(*a)), vec![self.msg14(msb, lsb, reg, *a, v)])),
                    (Phase::PendMsb(a, _), 6) => Some((sel(Phase::PendMsb(v, now)), vec![self.msg7(msb, lsb, reg, *a)])),
                    (Phase::PendMsb(a, _), 96 | 97) => Some((sel(Phase::Neutral), vec![self.msg7(msb, lsb, reg, *a), self.msgid(msb, lsb, reg, ctrl, v)])),
                    (Phase::PendLsb(a, _), 6) => Some((sel(Phase::After14(v)), vec![self.msg14(msb, lsb, reg, v, *a)])),
                    (Phase::PendLsb(..), _) => None,
                    (Phase::After14(m), 38) => Some((sel(Phase::After14(*m)), vec![self.msg14(msb, lsb, reg, *m, v)])),
                    (Phase::After14(_), 6) => Some((sel(Phase::PendMsb(v, now)), vec![])),
                    (Phase::After14(_), 96 | 97) => Some((sel(Phase::Neutral), vec![self.msgid(msb, lsb, reg, ctrl, v)])),
                    (Phase::Neutral, 6) => Some((sel(Phase::PendMsb(v, now)), vec![])),
                    (Phase::Neutral, 96 | 97) => Some((sel(Phase::Neutral), vec![self.msgid(msb, lsb, reg, ctrl, v)])),
                    (Phase::Neutral, 38) => None,
                    _ => None,
                }
            }
        }
    }

    /// Generator transition for a poll: `None` if a poll is not generated here.
    pub fn gen_poll(&self, g: &G, now: u64) -> Option<(G, Vec<Tup>)> {
        match g {
            G::Sel { msb, lsb, reg, phase: Phase::PendMsb(a, since) } => {
                if self.expired(now - since) {
                    Some((G::Sel { msb: *msb, lsb: *lsb, reg: *reg, phase: Phase::Neutral }, vec![self.msg7(*msb, *lsb, *reg, *a)]))
                } else {
                    Some((*g, vec![]))
                }
            }
            G::Sel { phase: Phase::PendLsb(_, since), .. } => {
                if !self.expired(now - since) {
                    Some((*g, vec![]))
                } else {
                    None
                }
            }
            _ => Some((*g, vec![])),
        }
    }

    fn compare(&self, what: &str, got: &[Option<Tup>], want: &[Tup], g: &G, v: &mut Vec<Violation>) {
        let got: Vec<Tup> = got.iter().flatten().cloned().collect();
        if got != want {
            let cls = if got.len() < want.len() { "missing" } else if got.len() > want.len() { "extra" } else { "wrong-content" };
            v.push(self.vio("reports-exactly-the-intended-messages", &format!("{}/{}", what, cls), || format!("{} in grammar state {:?}: reported {:?}, the documented forms intend {:?}", what, g, got.iter().map(pnm_str).collect::<Vec<_>>(), want.iter().map(pnm_str).collect::<Vec<_>>())));
        }
    }
}

impl System for GrammarSys {
    type State = GState;
    type Action = GAct;
    type Key = (u128, G);

    fn pid(&self) -> String {
        "C12".to_string()
    }
    fn name(&self) -> String {
        format!("PollingParameterNumberMessageScanner x documented-sequence grammar generator [ch={}, timeout={}, tick={}us, |V|={}]", self.ch, self.tname(), self.tick_ns / 1000, self.values.len())
    }
    fn init(&self) -> GState {
        self.clock(0);
        GState { sc: PollingParameterNumberMessageScanner::new(match self.exotic { Some((d, _)) => d, None => Duration::from_nanos(self.timeout_ns()) }), now: 0, g: G::Start }
    }
    fn actions_at(&self, s: &GState, depth: u32, out: &mut Vec<GAct>) {
        self.actions(s, out);
        if depth <= PAUSE_DEPTH {
            for i in 0..self.pauses.len() {
                out.push(GAct::Pause(i as u8));
            }
        }
    }
    fn actions(&self, s: &GState, out: &mut Vec<GAct>) {
        for &c in &[98u8, 99, 100, 101, 6, 38, 96, 97] {
            for &v in &self.values {
                if self.gen_cc(&s.g, s.now, c, v).is_some() {
                    out.push(GAct::Cc(c, v));
                }
            }
        }
        for i in 0..self.others.len() {
            out.push(GAct::Other(i as u8));
        }
        if self.gen_poll(&s.g, s.now).is_some() {
            out.push(GAct::Poll);
        }
        out.push(GAct::Tick);
    }
    fn step(&self, s: &GState, a: &GAct) -> Step<GState> {
        let mut v = Vec::new();
        self.clock(s.now);
        let mut sc = s.sc;
        match a {
            GAct::Cc(c, val) => {
                let out = sc.feed_msg(&cc(self.ch, *c, *val));
                let (g2, want) = self.gen_cc(&s.g, s.now, *c, *val).expect("harness: action was generated");
                self.compare(&format!("feed(CC#{})", c), &out, &want, &s.g, &mut v);
                Step { strict: false, next: Some(GState { sc, now: s.now, g: g2 }), obs: if want.is_empty() && out[0].is_none() { 0 } else { h64(&out) }, violations: v }
            }
            GAct::Other(i) => {
                let (st, d1, d2) = self.others[*i as usize];
                let out = sc.feed_msg(&raw(st, d1, d2));
                self.compare("feed(non-contributing)", &out, &[], &s.g, &mut v);
                Step { strict: false, next: Some(GState { sc, now: s.now, g: s.g }), obs: 0, violations: v }
            }
            GAct::Poll => {
                let out = sc.poll_ch(self.ch);
                let (g2, want) = self.gen_poll(&s.g, s.now).expect("harness: poll was generated");
                self.compare("poll", &[out], &want, &s.g, &mut v);
                Step { strict: false, next: Some(GState { sc, now: s.now, g: g2 }), obs: out.map_or(0, |t| h64(&("poll", t))), violations: v }
            }
            GAct::Tick => Step { strict: false, next: Some(GState { sc, now: s.now + 1, g: s.g }), obs: 0, violations: v },
            GAct::Pause(i) => Step { strict: false, next: Some(GState { sc, now: s.now + self.pauses[*i as usize], g: s.g }), obs: 0, violations: v },
        }
    }
    fn key(&self, s: &GState) -> (u128, G) {
        let mut g = s.g;
        if let G::Sel { msb, lsb, reg, phase } = g {
            let phase = match phase {
                Phase::PendMsb(a, since) => Phase::PendMsb(a, canon_age(s.now - since, self.cap)),
                Phase::PendLsb(a, since) => Phase::PendLsb(a, canon_age(s.now - since, self.cap)),
                p => p,
            };
            g = G::Sel { msb, lsb, reg, phase };
        }
        (debug_fp(&s.sc, s.now, self.cap), g)
    }
    fn n_classes(&self) -> usize {
        5
    }
    fn class_name(&self, i: usize) -> String {
        ["feed-in-language-cc", "feed-non-contributing", "poll", "tick-1ms", "long-pause"][i].to_string()
    }
    fn class_of(&self, a: &GAct) -> usize {
        match a {
            GAct::Cc(..) => 0,
            GAct::Other(..) => 1,
            GAct::Poll => 2,
            GAct::Tick => 3,
            GAct::Pause(_) => 4,
        }
    }
    fn render(&self, a: &GAct) -> String {
        match a {
            GAct::Cc(c, v) => format!("cc:{}:{}:{}", self.ch, c, v),
            GAct::Other(i) => {
                let (s, a, b) = self.others[*i as usize];
                format!("raw:{}:{}:{}", s, a, b)
            }
            GAct::Poll => format!("poll:{}", self.ch),
            GAct::Tick => "tick".to_string(),
            GAct::Pause(i) => format!("pause:{}", self.pauses[*i as usize]),
        }
    }
    fn rust_preamble(&self) -> String {
        let d = match self.exotic { Some((d, _)) => d, None => Duration::from_nanos(self.timeout_ns()) };
        format!("// build with RUSTFLAGS=\"--cfg helgoboss_midi_verif\" for the mock clock\n    let mut scanner = helgoboss_midi::PollingParameterNumberMessageScanner::new(std::time::Duration::new({}, {}));\n    let mut clock = 0u64;", d.as_secs(), d.subsec_nanos())
    }
    fn rust_line(&self, a: &GAct) -> String {
        match a {
            GAct::Cc(c, v) => format!("println!(\"{{:?}}\", scanner.feed(&helgoboss_midi::test_util::control_change({}, {}, {})));", self.ch, c, v),
            GAct::Other(_) => format!("// feed {}", self.render(a)),
            GAct::Poll => format!("println!(\"{{:?}}\", scanner.poll(helgoboss_midi::test_util::channel({})));", self.ch),
            GAct::Tick => format!("clock += 1; helgoboss_midi::verif_hooks::set_now_ticks(clock, {}); // one tick = {} us", self.tick_ns, self.tick_ns / 1000),
            GAct::Pause(i) => format!("clock += {}; helgoboss_midi::verif_hooks::set_now_ticks(clock, {});", self.pauses[*i as usize], self.tick_ns),
        }
    }
}

// ---------------------------------------------------------------------------------------------
// two channels at once: one real scanner, one grammar generator per channel
// ---------------------------------------------------------------------------------------------

#[derive(Clone, PartialEq, Debug)]
pub enum PairAct {
    A(GAct),
    B(GAct),
    Tick,
}

#[derive(Clone)]
pub struct PairState {
    pub sc: PollingParameterNumberMessageScanner,
    pub now: u64,
    pub ga: G,
    pub gb: G,
}

/// Every interleaving of two per-channel sentences of the documented grammar (with polls and
/// time) through ONE real scanner: per channel the reports must be exactly the intended ones.
pub struct GrammarPair {
    pub a: GrammarSys,
    pub b: GrammarSys,
}

impl GrammarPair {
    pub fn new(ca: u8, cb: u8, timeout: u64, va: &[u8], vb: &[u8]) -> Self {
        let mut a = GrammarSys::new(ca, timeout, va);
        let mut b = GrammarSys::new(cb, timeout, vb);
        a.others.truncate(2);
        b.others.truncate(1);
        GrammarPair { a, b }
    }
}

impl System for GrammarPair {
    type State = PairState;
    type Action = PairAct;
    type Key = (u128, G, G);

    fn pid(&self) -> String {
        "C12".to_string()
    }
    fn name(&self) -> String {
        format!("PollingParameterNumberMessageScanner x grammar generators on TWO channels [a={}, b={}, timeout={}]", self.a.ch, self.b.ch, self.a.tname())
    }
    fn init(&self) -> PairState {
        let i = self.a.init();
        PairState { sc: i.sc, now: 0, ga: G::Start, gb: G::Start }
    }
    fn actions(&self, s: &PairState, out: &mut Vec<PairAct>) {
        let mut tmp = Vec::new();
        self.a.actions(&GState { sc: s.sc, now: s.now, g: s.ga }, &mut tmp);
        for x in tmp.drain(..) {
            if !matches!(x, GAct::Tick | GAct::Pause(_)) {
                out.push(PairAct::A(x));
            }
        }
        self.b.actions(&GState { sc: s.sc, now: s.now, g: s.gb }, &mut tmp);
        for x in tmp.drain(..) {
            if !matches!(x, GAct::Tick | GAct::Pause(_)) {
                out.push(PairAct::B(x));
            }
        }
        out.push(PairAct::Tick);
    }
    fn step(&self, s: &PairState, a: &PairAct) -> Step<PairState> {
        match a {
            PairAct::Tick => Step { strict: false, next: Some(PairState { sc: s.sc, now: s.now + 1, ga: s.ga, gb: s.gb }), obs: 0, violations: Vec::new() },
            PairAct::A(x) => {
                let r = self.a.step(&GState { sc: s.sc, now: s.now, g: s.ga }, x);
                Step { strict: false, next: r.next.map(|n| PairState { sc: n.sc, now: n.now, ga: n.g, gb: s.gb }), obs: r.obs, violations: r.violations }
            }
            PairAct::B(x) => {
                let r = self.b.step(&GState { sc: s.sc, now: s.now, g: s.gb }, x);
                Step { strict: false, next: r.next.map(|n| PairState { sc: n.sc, now: n.now, ga: s.ga, gb: n.g }), obs: r.obs, violations: r.violations }
            }
        }
    }
    fn key(&self, s: &PairState) -> (u128, G, G) {
        let ka = self.a.key(&GState { sc: s.sc, now: s.now, g: s.ga });
        let kb = self.b.key(&GState { sc: s.sc, now: s.now, g: s.gb });
        (ka.0, ka.1, kb.1)
    }
    fn n_classes(&self) -> usize {
        3
    }
    fn class_name(&self, i: usize) -> String {
        ["action-on-channel-a", "action-on-channel-b", "tick-1ms"][i].to_string()
    }
    fn class_of(&self, a: &PairAct) -> usize {
        match a {
            PairAct::A(_) => 0,
            PairAct::B(_) => 1,
            PairAct::Tick => 2,
        }
    }
    fn render(&self, a: &PairAct) -> String {
        match a {
            PairAct::A(x) => self.a.render(x),
            PairAct::B(x) => self.b.render(x),
            PairAct::Tick => "tick".to_string(),
        }
    }
    fn rust_preamble(&self) -> String {
        self.a.rust_preamble()
    }
    fn rust_line(&self, a: &PairAct) -> String {
        match a {
            PairAct::A(x) => self.a.rust_line(x),
            PairAct::B(x) => self.b.rust_line(x),
            PairAct::Tick => "clock += 1; helgoboss_midi::verif_hooks::set_now_millis(clock);".to_string(),
        }
    }
}

// ---------------------------------------------------------------------------------------------
// part two: encode -> feed -> poll after the timeout, from arbitrary prior states
// ---------------------------------------------------------------------------------------------

macro_rules! vio2 {
    ($chk:expr, $rule:expr, $cls:expr, $case:expr, $detail:expr) => {{
        let sig = format!("C12/{}/{}", $rule, $cls).replace(' ', "_");
        if !$chk.flooded(&sig) {
            $chk.violate(Violation::new($rule, sig, $detail).with_case($case));
        }
    }};
}

/// From prior state (sc at time now, with `flush` = the 7-bit message the history observer
/// attributes to a still-pending controller-6 byte), feed the real encoder's output for `p` in the
/// given byte order, advance past the timeout, poll.
fn roundtrip(chk: &Check, sc0: &PollingParameterNumberMessageScanner, now: u64, timeout: u64, flush: Option<Tup>, p: &Pnm, lsb_first: bool, label: &dyn Fn() -> String) {
    set_now_millis(now);
    let mut sc = *sc0;
    let m = p.build();
    let enc: [Option<RawShortMessage>; 4] = m.to_short_messages(if lsb_first { DataEntryByteOrder::LsbFirst } else { DataEntryByteOrder::MsbFirst });
    let mut outs: Vec<Tup> = Vec::new();
    for sm in enc.iter().flatten() {
        for t in sc.feed_msg(sm).iter().flatten() {
            outs.push(*t);
        }
    }
    set_now_millis(now + timeout + 1);
    if let Some(t) = sc.poll(ch(p.ch)) {
        outs.push(tup_pnm(&t));
    }
    set_now_millis(now);
    let want = p.tup();
    let ok = outs == vec![want] || (flush.is_some() && outs == vec![flush.unwrap(), want]);
    if !ok {
        let cls = if !outs.contains(&want) { "original-not-reported" } else if outs.len() > 1 + flush.is_some() as usize { "extra-reports" } else { "unexpected-leading-report" };
        vio2!(chk, "encode-feed-poll-reports-exactly-the-message", &format!("{:?}/{}/{}", p.kind, if lsb_first { "LsbFirst" } else { "MsbFirst" }, cls), label(),
            format!("prior state {}; encoding {:?} ({}), feeding it and polling after the timeout reported {:?}; expected [{}]{}", label(), p, if lsb_first { "LSB first" } else { "MSB first" }, outs.iter().map(pnm_str).collect::<Vec<_>>(), pnm_str(&want), if let Some(f) = flush { format!(" optionally preceded by the flush {}", pnm_str(&f)) } else { String::new() }));
    }
}

fn message_set(c: u8, numbers: &[u16], v14: &[u16], v7: &[u16]) -> Vec<Pnm> {
    let mut v = Vec::new();
    for &number in numbers {
        for reg in [false, true] {
            for &value in v14 {
                v.push(Pnm { ch: c, number, value, reg, kind: Kind::Entry14 });
            }
            for &value in v7 {
                for kind in [Kind::Entry7, Kind::Inc, Kind::Dec] {
                    v.push(Pnm { ch: c, number, value, reg, kind });
                }
            }
        }
    }
    v
}

pub fn run_c12(chk: &Check, tier: Tier) {
    chk.rule("part 1: reachability fixpoint of the real polling scanner (mock clock; timeouts 0 and 2 ms) x a generator automaton of the documented sequence grammar (number selection in either order; MSB alone; MSB,LSB; further LSB; LSB,MSB directly after the selection; inc/dec; re-selection; early polls, late polls at unit boundaries, 1 ms ticks and non-contributing messages anywhere): on every transition the list of messages returned by feed/poll must equal the intended list. part 2: from EVERY state of the C14 observer fixpoint (arbitrary prior traffic, polls, resets, partially elapsed timeouts) x ~1000 messages x both byte orders: real encoder -> feed -> advance past the timeout -> poll must report exactly [original], optionally preceded by the one 7-bit flush the observer attributes to a pending controller-6 byte; plus four dirty prior states x per-dimension complete message sets (quick) / all messages (thorough)");
    chk.assume("byte-value abstraction for the expansion ({0,1,127}; thorough 8 values); interleavings: every interleaving of two per-channel sentences is explored in a two-channel grammar product for a few channel pairs; more channels rest on C15 (isolation)");
    let channels: Vec<u8> = if tier.thorough() { (0..16).collect() } else { vec![0, 9, 15] };
    let v3 = [0u8, 1, 127];
    let v8 = [0u8, 1, 2, 63, 64, 85, 126, 127];
    for &t in &[0u64, 2] {
        for &c in &channels {
            let sys = GrammarSys::new(c, t, &v3);
            let out = xs::explore(&sys, &Limits::default());
            engine::record(chk, &sys, &out, None);
        }
        if t == 2 {
            // a timeout with a sub-millisecond part, one below a millisecond
            // (on a finer clock: half / quarter millisecond ticks)
            for (us, tick_us) in [(1500u64, 500u64), (500, 250)] {
                let sys = GrammarSys::new(channels[0], 2, &v3).with_timeout_us(us).with_tick_us(tick_us);
                let out = xs::explore(&sys, &Limits::default());
                engine::record(chk, &sys, &out, None);
            }
            // not a whole number of microseconds (250 / 500 ns ticks); one second (250 ms ticks)
            for (ns, tick_ns) in [(500u64, 250u64), (1500, 500), (1_000_000_000, 250_000_000)] {
                let sys = GrammarSys::new(channels[0], 1, &v3).with_timeout_ns(ns, tick_ns);
                let out = xs::explore(&sys, &Limits::default());
                engine::record(chk, &sys, &out, None);
            }
            // astronomically long timeouts that alias to zero under a truncating conversion
            for (d, label) in crate::polling::exotic_timeouts() {
                let mut sys = GrammarSys::new(channels[0], T_INF, &[1]).with_exotic(d, label);
                // the oracle treats these as never expiring, so no pause may reach the shortest (2^32 ms)
                sys.pauses = vec![1 << 20];
                let out = xs::explore(&sys, &Limits::default());
                engine::record(chk, &sys, &out, None);
            }
        }
        if tier.thorough() {
            let sys = GrammarSys::new(4, t, &v8);
            let out = xs::explore(&sys, &Limits::default());
            engine::record(chk, &sys, &out, None);
        }
    }
    // two channels at once
    let pairs: Vec<(u8, u8)> = if tier.thorough() { vec![(0, 8), (7, 15), (3, 4), (15, 0), (9, 1), (5, 13)] } else { vec![(0, 8), (15, 7)] };
    for &t in &[0u64, 2] {
        for &(a, b) in &pairs {
            let sys = if tier.thorough() { GrammarPair::new(a, b, t, &[1, 127], &[2, 0]) } else { GrammarPair::new(a, b, t, &[1], &[2]) };
            let out = xs::explore(&sys, &Limits::default());
            engine::record(chk, &sys, &out, None);
        }
    }
    // part two (a)
    let n2 = AtomicU64::new(0);
    let n2_dirty = AtomicU64::new(0);
    for &t in &[0u64, 2] {
        let chans: Vec<u8> = if tier.thorough() { vec![0, 7, 8, 15] } else { vec![9] };
        for &c in &chans {
            let sys = PollSys::new("C12", c, t, 1, &v3, false, PReport::default());
            let out = xs::explore(&sys, &Limits { restoration_check: false, ..Default::default() });
            engine::record(chk, &sys, &out, None);
            let msgs = message_set(c, &boundary14(), &boundary14(), &boundary7());
            if out.nodes.len() > 50_000 {
                chk.not_exhaustive(&format!("C12 part two: {} prior states, encode-feed-poll run from the 50000 shallowest only", out.nodes.len()));
            }
            out.nodes[..out.nodes.len().min(50_000)].par_iter().enumerate().for_each(|(si, node)| {
                let st = &node.state;
                let flush = match (st.ob.owed, st.ob.number()) {
                    (Some((b, _)), Some(num)) => Some([c as u32, num, b as u32, st.ob.reg as u32, 0, 0]),
                    _ => None,
                };
                let r = catch(|| {
                    for p in &msgs {
                        for lsb_first in [false, true] {
                            roundtrip(chk, &st.sc, st.now, t, flush, p, lsb_first, &|| format!("state#{} of {} (history record {:?})", si, sys.name(), st.ob));
                        }
                    }
                });
                if let Err(e) = r {
                    vio2!(chk, "panics-on-valid-input", "roundtrip", format!("c12rt|state{}", si), format!("encode/feed/poll from state #{} panicked: {}", si, e));
                }
                n2.fetch_add(2 * msgs.len() as u64, Ordering::Relaxed);
                if st.ob.owed.is_some() {
                    n2_dirty.fetch_add(2 * msgs.len() as u64, Ordering::Relaxed);
                }
            });
            // (b) dirty prior states x complete per-dimension sets
            let fresh = PollingParameterNumberMessageScanner::new(Duration::from_millis(t));
            let mk = |seq: &[(u8, u8)]| {
                set_now_millis(0);
                let mut s = fresh;
                for (k, x) in seq {
                    s.feed(&cc(c, *k, *x));
                }
                s
            };
            let dirty: Vec<(&str, PollingParameterNumberMessageScanner, Option<Tup>)> = vec![
                ("fresh", fresh, None),
                ("msb-pending-registered", mk(&[(101, 5), (100, 6), (6, 77)]), Some([c as u32, 5 * 128 + 6, 77, 1, 0, 0])),
                ("lsb-pending-non-registered", mk(&[(99, 9), (98, 10), (38, 99)]), None),
                ("14-bit-complete-registered", mk(&[(101, 1), (100, 2), (6, 3), (38, 4)]), None),
            ];
            let all14: Vec<u16> = (0..16384).collect();
            let all7: Vec<u16> = (0..128).collect();
            for (name, st, flush) in &dirty {
                let sets: Vec<Vec<Pnm>> = if tier.thorough() && c == chans[0] {
                    (0..64u16).map(|blk| message_set(c, &((blk * 256)..((blk + 1) * 256)).collect::<Vec<_>>(), &all14, &all7)).collect()
                } else {
                    vec![message_set(c, &all14, &boundary14(), &boundary7()), message_set(c, &boundary14(), &all14, &all7)]
                };
                for set in sets {
                    let r = catch(|| {
                        set.par_chunks(2048).for_each(|chunk| {
                            for p in chunk {
                                for lsb_first in [false, true] {
                                    roundtrip(chk, st, 0, t, *flush, p, lsb_first, &|| format!("dirty:{}", name));
                                }
                            }
                        })
                    });
                    if let Err(e) = r {
                        vio2!(chk, "panics-on-valid-input", "roundtrip-dirty", format!("c12dirty|{}", name), format!("encode/feed/poll from dirty state {} panicked: {}", name, e));
                    }
                    n2.fetch_add(2 * set.len() as u64, Ordering::Relaxed);
                }
            }
        }
    }
    chk.add_eval(n2.load(Ordering::Relaxed));
    chk.set("roundtrip_cases", json!(n2.load(Ordering::Relaxed)));
    chk.set("roundtrip_cases_with_pending_flush", json!(n2_dirty.load(Ordering::Relaxed)));
    // hook conformance transcript (compared with the real-clock build by the realclock part)
    let (h, calls, reports) = crate::conform::transcript(if tier.thorough() { 6 } else { 5 });
    chk.set("hook_conformance_transcript", json!({"hash": format!("{:016x}", h), "calls": calls, "reports": reports}));
    chk.add_eval(calls);
    chk.sample(json!({"sentence": ["cc 99 =1", "cc 98 =0", "cc 6 =127", "tick", "poll (early) -> []", "cc 38 =1 -> [NRPN-14bit(128, 16257)]", "cc 38 =0 -> [NRPN-14bit(128, 16256)]", "cc 6 =1", "tick", "tick", "poll -> [NRPN-7bit(128, 1)]"]}));
    chk.sample(json!({"roundtrip": "prior: RPN 646 with data MSB 77 pending; message non_registered_14_bit(ch, 421, 15000) LSB first", "expected": ["RPN-7bit(646, 77) (flush)", "NRPN-14bit(421, 15000)"]}));
}
