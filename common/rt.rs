//! C18: no heap allocation and no panic on valid input; documented panics occur.
//!
//! A monitor rather than a separate enumeration: the domains of the other checks are re-executed
//! inside API regions in an UNOPTIMISED build (opt-level 0, debug assertions on) under a counting
//! global allocator and catch_unwind. Region bodies are written allocation-free on the harness
//! side (plain loops, stack buffers), so any count is the crate's.
//! Compiled into configurations A (std, mock clock), B (no default features) and D (real clock).
#![allow(dead_code)]
use core::convert::TryFrom;
use core::fmt::Write as _;
use core::hint::black_box;
use helgoboss_midi::*;
use rayon::prelude::*;
use serde_json::json;
use std::sync::atomic::{AtomicU64, Ordering};
use xs::alloc::region;
use xs::{catch, Check, Tier, Violation};

/// Fixed-size formatting sink.
pub struct StackBuf {
    pub buf: [u8; 768],
    pub len: usize,
}
impl StackBuf {
    pub fn new() -> Self {
        StackBuf { buf: [0; 768], len: 0 }
    }
    pub fn as_str(&self) -> &str {
        core::str::from_utf8(&self.buf[..self.len]).unwrap_or("")
    }
}
impl core::fmt::Write for StackBuf {
    fn write_str(&mut self, s: &str) -> core::fmt::Result {
        let b = s.as_bytes();
        if self.len + b.len() > self.buf.len() {
            return Err(core::fmt::Error);
        }
        self.buf[self.len..self.len + b.len()].copy_from_slice(b);
        self.len += b.len();
        Ok(())
    }
}

fn u7(v: u8) -> U7 {
    U7::try_from(v).unwrap()
}
fn u14(v: u16) -> U14 {
    U14::try_from(v).unwrap()
}
fn ch(v: u8) -> Channel {
    Channel::try_from(v).unwrap()
}
fn cn(v: u8) -> ControllerNumber {
    ControllerNumber::try_from(v).unwrap()
}
fn kn(v: u8) -> KeyNumber {
    KeyNumber::try_from(v).unwrap()
}

/// Run an API region: `f` returns the number of API calls it made. Allocation count must stay
/// unchanged and `f` must not unwind.
fn zone(chk: &Check, name: &str, calls: &AtomicU64, f: impl FnOnce() -> u64) {
    let r = catch(|| region(f));
    match r {
        Ok((n, allocs)) => {
            calls.fetch_add(n, Ordering::Relaxed);
            if allocs > 0 {
                chk.violate(Violation::new("no-heap-allocation", format!("C18/allocates/{}/{}", name.split('#').next().unwrap_or(name), chk.part), format!("{} heap allocation(s) inside the API region '{}' ({} calls, all returning normally)", allocs, name, n)).with_case(format!("zone|{}", name)));
            }
        }
        Err(p) => chk.violate(Violation::new("no-panic-on-valid-input", format!("C18/panics-on-valid-input/{}/{}", name.split('#').next().unwrap_or(name), chk.part), format!("API region '{}' panicked on valid input: {}", name, p)).with_case(format!("zone|{}", name))),
    }
}

fn must_panic<R>(chk: &Check, what: &str, n: &AtomicU64, f: impl FnOnce() -> R) {
    n.fetch_add(1, Ordering::Relaxed);
    if catch(f).is_ok() {
        chk.violate(Violation::new("documented-panic-occurs", format!("C18/documented-panic-missing/{}/{}", what.split('(').next().unwrap_or(what), chk.part), format!("{} did not panic", what)).with_case(format!("panic|{}", what)));
    }
}

macro_rules! int_zone {
    ($chk:expr, $calls:expr, $T:ident, $max:expr, $repr:ty; $($P:ty),*) => {{
        zone($chk, concat!("integers/", stringify!($T)), $calls, || {
            let mut n = 0u64;
            for v in 0..=($max as u32) {
                let t = <$T>::try_from(v as u16).unwrap();
                black_box(<$T>::new(v as $repr));
                black_box(t.get());
                $( black_box(<$P>::from(t)); n += 1; )*
                let mut sb = StackBuf::new();
                let _ = write!(sb, "{}", t);
                let back: Result<$T, _> = sb.as_str().parse();
                black_box(&back);
                let mut sb2 = StackBuf::new();
                let _ = write!(sb2, "{:?}", t);
                // formatter flags (width, fill, alignment, zero padding, sign, precision, alternate)
                let mut sb3 = StackBuf::new();
                let _ = write!(sb3, "{:5} {:<7} {:^9} {:*>8} {:05} {:+} {:.2} {:#} {:+09.3} {:#?} {:>4?}", t, t, t, t, t, t, t, t, t, t, t);
                black_box(sb3.as_str().len());
                black_box(t.cmp(&<$T>::MAX));
                black_box(t == <$T>::MIN);
                black_box(<$T>::default());
                n += 8;
            }
            // fallible conversions on both sides of the boundary, and their errors' Display
            for v in 0..=600u32 {
                let a = <$T>::try_from(v as u16);
                let b = <$T>::try_from(v);
                let c = <$T>::try_from(v as i32 - 300);
                let d = <$T>::try_from(v as u64 | (1u64 << 40));
                let e = <$T>::try_from(-(v as i64));
                if let Err(err) = &c {
                    let mut sb = StackBuf::new();
                    let _ = write!(sb, "{} {:?}", err, err);
                }
                black_box((&a, &b, &c, &d, &e));
                n += 5;
            }
            for s in ["0", "1", "15", "16", "127", "128", "16383", "16384", "65536", "+5", "-1", "", "abc", "00000000000000000127", "99999999999999999999",
                      "4294967296", "4294967299", "18446744073709551616", "1\u{e9}", "\u{20ac}", "\u{1F600}1", "1\u{a0}", "\u{ff11}", "0x1", "0x\u{e9}", "+\u{20ac}", "\u{e9}5", " 1", "1 "] {
                let r: Result<$T, _> = s.parse();
                if let Err(err) = &r {
                    let mut sb = StackBuf::new();
                    let _ = write!(sb, "{} {:?}", err, err);
                }
                black_box(&r);
                n += 1;
            }
            n
        });
    }};
}

fn touch<M: ShortMessage>(m: &M) -> u64 {
    black_box(m.status_byte());
    black_box(m.data_byte_1());
    black_box(m.data_byte_2());
    black_box(m.to_bytes());
    black_box(m.to_structured());
    black_box(m.to_other::<RawShortMessage>());
    black_box(m.r#type());
    black_box(m.super_type());
    black_box(m.main_category());
    black_box(m.is_note_on());
    black_box(m.is_note_off());
    black_box(m.is_note());
    black_box(m.channel());
    black_box(m.key_number());
    black_box(m.velocity());
    black_box(m.controller_number());
    black_box(m.control_value());
    black_box(m.program_number());
    black_box(m.pressure_amount());
    black_box(m.pitch_bend_value());
    20
}

fn messages(chk: &Check, calls: &AtomicU64, tier: Tier) {
    // every valid triple (quick: data bytes on a 24-value grid incl. all boundaries; thorough: all)
    let grid: Vec<u8> = if tier.thorough() { (0..128).collect() } else { vec![0, 1, 2, 5, 6, 7, 8, 15, 16, 31, 32, 38, 63, 64, 96, 97, 98, 101, 112, 119, 120, 121, 126, 127] };
    let all: Vec<u8> = (0..128).collect();
    (0x80..=0xFFu8).into_par_iter().for_each(|s| {
        let grid = &grid;
        let all = &all;
        zone(chk, &format!("short-message/status#{:02X}", s), calls, || {
            let mut n = 0u64;
            // Control Change: every controller number (they are semantically distinct); others: the grid
            let d1s: &Vec<u8> = if s & 0xF0 == 0xB0 { all } else { grid };
            for &d1 in d1s.iter() {
                for &d2 in grid.iter() {
                    let b = (s, u7(d1), u7(d2));
                    let r = RawShortMessage::from_bytes(b).unwrap();
                    let st = StructuredShortMessage::from_bytes(b).unwrap();
                    n += 2 + touch(&r) + touch(&st);
                    black_box(StructuredShortMessage::from_other(&r));
                    black_box(RawShortMessage::try_from(b).is_ok());
                    let t: (u8, U7, U7) = r.into();
                    black_box(t);
                    let mut sb = StackBuf::new();
                    let _ = write!(sb, "{:?} {:?}", r, st);
                    n += 4;
                }
            }
            n
        });
    });
    zone(chk, "short-message/invalid-status-and-types", calls, || {
        let mut n = 0u64;
        for s in 0..0x80u8 {
            let r = RawShortMessage::from_bytes((s, u7(1), u7(2)));
            if let Err(e) = &r {
                let mut sb = StackBuf::new();
                let _ = write!(sb, "{} {:?}", e, e);
            }
            black_box(StructuredShortMessage::from_bytes((s, u7(1), u7(2))).is_err());
            n += 2;
        }
        for b in 0..=255u8 {
            if let Ok(t) = ShortMessageType::try_from(b) {
                black_box(u8::from(t));
                black_box(t.super_type().main_category());
            }
            n += 1;
        }
        for b in 0..128u8 {
            let f = TimeCodeQuarterFrame::from(u7(b));
            black_box(U7::from(f));
            n += 2;
        }
        n
    });
}

fn factories(chk: &Check, calls: &AtomicU64) {
    (0..16u8).into_par_iter().for_each(|c| {
        zone(chk, &format!("factory/channel#{}", c), calls, || {
            let mut n = 0u64;
            type R = RawShortMessage;
            type S = StructuredShortMessage;
            // complete 128 x 128 grid: an assertion that is only compiled in unoptimised builds can
            // single out any argument value (e.g. one controller number)
            for a in 0..128u8 {
                for b in 0..128u8 {
                    black_box((R::note_on(ch(c), kn(a), u7(b)), S::note_on(ch(c), kn(a), u7(b))));
                    black_box((R::note_off(ch(c), kn(a), u7(b)), S::note_off(ch(c), kn(a), u7(b))));
                    black_box((R::control_change(ch(c), cn(a), u7(b)), S::control_change(ch(c), cn(a), u7(b))));
                    black_box((R::polyphonic_key_pressure(ch(c), kn(a), u7(b)), S::polyphonic_key_pressure(ch(c), kn(a), u7(b))));
                    black_box(R::channel_message(ShortMessageType::ControlChange, ch(c), u7(a), u7(b)));
                    black_box(S::channel_message(ShortMessageType::PitchBendChange, ch(c), u7(a), u7(b)));
                    black_box(helgoboss_midi::test_util::note_on(c, a, b));
                    black_box(helgoboss_midi::test_util::control_change(c, a, b));
                    n += 12;
                }
                black_box((R::program_change(ch(c), u7(a)), S::program_change(ch(c), u7(a))));
                black_box((R::channel_pressure(ch(c), u7(a)), S::channel_pressure(ch(c), u7(a))));
                n += 4;
            }
            for v in (0..16384u16).step_by(7).chain([16383u16]) {
                black_box((R::pitch_bend_change(ch(c), u14(v)), S::pitch_bend_change(ch(c), u14(v))));
                n += 2;
            }
            n
        });
    });
    zone(chk, "factory/system", calls, || {
        let mut n = 0u64;
        type R = RawShortMessage;
        type S = StructuredShortMessage;
        for v in 0..16384u16 {
            black_box((R::song_position_pointer(u14(v)), S::song_position_pointer(u14(v))));
            n += 2;
        }
        for a in 0..128u8 {
            black_box((R::song_select(u7(a)), S::song_select(u7(a))));
            black_box(S::time_code_quarter_frame(TimeCodeQuarterFrame::from(u7(a))));
            for t in [ShortMessageType::TimeCodeQuarterFrame, ShortMessageType::SongPositionPointer, ShortMessageType::SongSelect, ShortMessageType::TuneRequest, ShortMessageType::SystemExclusiveEnd, ShortMessageType::SystemCommonUndefined1, ShortMessageType::SystemCommonUndefined2] {
                black_box((R::system_common_message(t, u7(a), u7(127 - a)), S::system_common_message(t, u7(a), u7(127 - a))));
                n += 2;
            }
            n += 3;
        }
        for t in [ShortMessageType::TimingClock, ShortMessageType::Start, ShortMessageType::Continue, ShortMessageType::Stop, ShortMessageType::ActiveSensing, ShortMessageType::SystemReset, ShortMessageType::SystemRealTimeUndefined1, ShortMessageType::SystemRealTimeUndefined2] {
            black_box((R::system_real_time_message(t), S::system_real_time_message(t)));
            n += 2;
        }
        black_box((S::system_exclusive_start(), S::tune_request(), S::system_exclusive_end(), S::timing_clock(), S::start(), S::r#continue(), S::stop(), S::active_sensing(), S::system_reset()));
        black_box((R::system_exclusive_start(), R::tune_request(), R::system_exclusive_end(), R::timing_clock(), R::start(), R::r#continue(), R::stop(), R::active_sensing(), R::system_reset()));
        n + 18
    });
}

fn encoders(chk: &Check, calls: &AtomicU64) {
    (0..16u8).into_par_iter().for_each(|c| {
        zone(chk, &format!("encoders/channel#{}", c), calls, || {
            let mut n = 0u64;
            let vals: [u16; 12] = [0, 1, 63, 64, 127, 128, 129, 8191, 8192, 16256, 16382, 16383];
            for k in 0..32u8 {
                for &v in vals.iter() {
                    let m = ControlChange14BitMessage::new(ch(c), cn(k), u14(v));
                    black_box((m.channel(), m.msb_controller_number(), m.lsb_controller_number(), m.value()));
                    let a: [RawShortMessage; 2] = m.to_short_messages();
                    let b: [StructuredShortMessage; 2] = m.into();
                    black_box((&a, &b));
                    let mut sb = StackBuf::new();
                    let _ = write!(sb, "{:?}", m);
                    n += 7;
                }
            }
            for &num in vals.iter() {
                for &v in vals.iter() {
                    for reg in [false, true] {
                        let ms = [
                            if reg { ParameterNumberMessage::registered_14_bit(ch(c), u14(num), u14(v)) } else { ParameterNumberMessage::non_registered_14_bit(ch(c), u14(num), u14(v)) },
                            if reg { ParameterNumberMessage::registered_7_bit(ch(c), u14(num), u7((v & 0x7f) as u8)) } else { ParameterNumberMessage::non_registered_7_bit(ch(c), u14(num), u7((v & 0x7f) as u8)) },
                            if reg { ParameterNumberMessage::registered_increment(ch(c), u14(num), u7((v >> 7) as u8)) } else { ParameterNumberMessage::non_registered_increment(ch(c), u14(num), u7((v >> 7) as u8)) },
                            if reg { ParameterNumberMessage::registered_decrement(ch(c), u14(num), u7((v & 0x7f) as u8)) } else { ParameterNumberMessage::non_registered_decrement(ch(c), u14(num), u7((v & 0x7f) as u8)) },
                        ];
                        for m in ms.iter() {
                            black_box((m.channel(), m.number(), m.value(), m.is_14_bit(), m.is_registered(), m.data_type()));
                            let a: [Option<RawShortMessage>; 4] = m.to_short_messages(DataEntryByteOrder::MsbFirst);
                            let b: [Option<StructuredShortMessage>; 4] = m.to_short_messages(DataEntryByteOrder::LsbFirst);
                            let d: [Option<RawShortMessage>; 4] = (*m).into();
                            black_box((&a, &b, &d));
                            // decode again with both clock-free scanners
                            let mut sc = ParameterNumberMessageScanner::new();
                            for x in b.iter().flatten() {
                                black_box(sc.feed(x));
                            }
                            sc.reset();
                            let mut sb = StackBuf::new();
                            let _ = write!(sb, "{:?}", m);
                            n += 14;
                        }
                    }
                }
            }
            n
        });
    });
}

fn documented_panics(chk: &Check, n: &AtomicU64) {
    // `new(MAX+1)` of each type
    must_panic(chk, "U4::new(16)", n, || U4::new(16));
    must_panic(chk, "U7::new(128)", n, || U7::new(128));
    must_panic(chk, "U14::new(16384)", n, || U14::new(16384));
    must_panic(chk, "Channel::new(16)", n, || Channel::new(16));
    must_panic(chk, "KeyNumber::new(128)", n, || KeyNumber::new(128));
    must_panic(chk, "ControllerNumber::new(128)", n, || ControllerNumber::new(128));
    must_panic(chk, "test_util::u7(128)", n, || helgoboss_midi::test_util::u7(128));
    must_panic(chk, "test_util::channel(16)", n, || helgoboss_midi::test_util::channel(16));
    must_panic(chk, "test_util::note_on(0,128,0)", n, || helgoboss_midi::test_util::note_on(0, 128, 0));
    must_panic(chk, "test_util::short(0x7f,0,0)", n, || helgoboss_midi::test_util::short(0x7f, 0, 0));
    must_panic(chk, "ControlChange14BitMessage::new(cn 32)", n, || ControlChange14BitMessage::new(ch(0), cn(32), u14(0)));
    must_panic(chk, "ControlChange14BitMessage::new(cn 127)", n, || ControlChange14BitMessage::new(ch(0), cn(127), u14(0)));
    must_panic(chk, "channel_message(TimingClock)", n, || RawShortMessage::channel_message(ShortMessageType::TimingClock, ch(0), u7(0), u7(0)));
    must_panic(chk, "system_common_message(NoteOn)", n, || RawShortMessage::system_common_message(ShortMessageType::NoteOn, u7(0), u7(0)));
    must_panic(chk, "system_real_time_message(SongSelect)", n, || StructuredShortMessage::system_real_time_message(ShortMessageType::SongSelect));
}

/// Discarding formatting sink (counts bytes): Debug output of a scanner is longer than any stack buffer
/// worth having, and the point is only that producing it does not allocate.
pub struct NullSink(pub usize);
impl core::fmt::Write for NullSink {
    fn write_str(&mut self, s: &str) -> core::fmt::Result {
        self.0 += s.len();
        Ok(())
    }
}

/// `{:?}` and `{:#?}` of a value into the discarding sink.
pub fn debug_format<T: core::fmt::Debug>(t: &T) -> usize {
    let mut k = NullSink(0);
    let _ = write!(k, "{:?}", t);
    let _ = write!(k, "{:#?}", t);
    k.0
}

/// Clock-free scanners over complete small histories: all sequences up to `depth` over a
/// 14-action alphabet, by depth-first search on `Copy` values (allocation-free).
fn scanner_histories(chk: &Check, calls: &AtomicU64, depth: usize) {
    fn dfs14(sc: &ControlChange14BitMessageScanner, msgs: &[RawShortMessage; 10], depth: usize, top: usize, n: &mut u64) {
        if depth == 0 {
            return;
        }
        for a in 0..11 {
            let mut s = *sc;
            if a < 10 {
                black_box(s.feed(&msgs[a]));
            } else {
                s.reset();
            }
            *n += 1;
            if depth + 3 > top {
                // Debug of a scanner with a sequence in progress (formatting must not allocate either):
                // every state reachable by up to three actions
                black_box(debug_format(&s));
            }
            dfs14(&s, msgs, depth - 1, top, n);
        }
    }
    fn dfsn(sc: &ParameterNumberMessageScanner, msgs: &[RawShortMessage; 10], depth: usize, top: usize, n: &mut u64) {
        if depth == 0 {
            return;
        }
        for a in 0..11 {
            let mut s = *sc;
            if a < 10 {
                black_box(s.feed(&msgs[a]));
            } else {
                s.reset();
            }
            *n += 1;
            if depth + 3 > top {
                black_box(debug_format(&s));
            }
            dfsn(&s, msgs, depth - 1, top, n);
        }
    }
    let c = ch(11);
    let m14: [RawShortMessage; 10] = [
        RawShortMessage::control_change(c, cn(0), u7(1)), RawShortMessage::control_change(c, cn(31), u7(127)), RawShortMessage::control_change(c, cn(32), u7(2)),
        RawShortMessage::control_change(c, cn(63), u7(0)), RawShortMessage::control_change(c, cn(33), u7(5)), RawShortMessage::control_change(c, cn(1), u7(64)),
        RawShortMessage::control_change(c, cn(64), u7(1)), RawShortMessage::note_on(c, kn(1), u7(33)), RawShortMessage::control_change(ch(12), cn(0), u7(9)), RawShortMessage::timing_clock(),
    ];
    let mn: [RawShortMessage; 10] = [
        RawShortMessage::control_change(c, cn(99), u7(1)), RawShortMessage::control_change(c, cn(98), u7(127)), RawShortMessage::control_change(c, cn(101), u7(2)),
        RawShortMessage::control_change(c, cn(100), u7(0)), RawShortMessage::control_change(c, cn(6), u7(5)), RawShortMessage::control_change(c, cn(38), u7(64)),
        RawShortMessage::control_change(c, cn(96), u7(1)), RawShortMessage::control_change(c, cn(97), u7(33)), RawShortMessage::control_change(ch(12), cn(6), u7(9)), RawShortMessage::song_select(u7(6)),
    ];
    zone(chk, "scanner-histories/ControlChange14BitMessageScanner", calls, || {
        let mut n = 0;
        dfs14(&ControlChange14BitMessageScanner::new(), &m14, depth, depth, &mut n);
        n
    });
    zone(chk, "scanner-histories/ParameterNumberMessageScanner", calls, || {
        let mut n = 0;
        dfsn(&ParameterNumberMessageScanner::new(), &mn, depth, depth, &mut n);
        n
    });
}

pub fn run_c18(chk: &Check, tier: Tier) {
    chk.rule("the API is re-executed inside allocation-counting regions (thread-local counters of a #[global_allocator] wrapper) and catch_unwind in a build with opt-level 0 and debug assertions: integer conversions/new/parse/Display/Debug/errors for every value of the six types; every accessor and conversion of Raw and Structured messages on every valid status x a boundary data grid (thorough: all 2^21 triples); factories; both encoders incl. scanning the encodings back; every documented panic must occur; scanners: ALL action sequences up to depth 5 (6 thorough) by DFS on Copy values, plus (std part) the reachability fixpoints of the scanner products whose every feed/poll/reset runs in a region. non-trivial = API calls made inside regions by sweeps that exercise formatting, parsing or scanning (everything except plain accessors)");
    if !xs::alloc::installed() {
        chk.machinery_error("counting allocator is not installed in this binary".to_string());
    }
    chk.set(&format!("debug_assertions_{}", chk.part), json!(cfg!(debug_assertions)));
    if !cfg!(debug_assertions) {
        chk.assume("this part ran in an optimised build; allocations may have been elided");
    }
    let calls = AtomicU64::new(0);
    let heavy = AtomicU64::new(0);
    int_zone!(chk, &heavy, U4, 15, u8; u8, i8, u16, i16, u32, i32, u64, i64, u128, i128, usize, isize);
    int_zone!(chk, &heavy, U7, 127, u8; u8, i8, u16, i16, u32, i32, u64, i64, u128, i128, usize, isize);
    int_zone!(chk, &heavy, Channel, 15, u8; u8, i8, u16, i16, u32, i32, u64, i64, u128, i128, usize, isize);
    int_zone!(chk, &heavy, KeyNumber, 127, u8; u8, i8, u16, i16, u32, i32, u64, i64, u128, i128, usize, isize);
    int_zone!(chk, &heavy, ControllerNumber, 127, u8; u8, i8, u16, i16, u32, i32, u64, i64, u128, i128, usize, isize);
    int_zone!(chk, &heavy, U14, 16383, u16; u16, i16, u32, i32, u64, i64, u128, i128, usize, isize);
    zone(chk, "integers/newtype-to-newtype", &calls, || {
        let mut n = 0u64;
        for v in 0..16384u16 {
            let x = u14(v);
            black_box((U7::try_from(x).is_ok(), U4::try_from(x).is_ok()));
            n += 2;
        }
        for v in 0..128u8 {
            let x = u7(v);
            black_box((U14::from(x), U4::try_from(x).is_ok(), KeyNumber::from(x), ControllerNumber::from(x), U7::from(KeyNumber::from(x)), U7::from(ControllerNumber::from(x))));
            n += 6;
        }
        for v in 0..16u8 {
            let x = U4::try_from(v).unwrap();
            black_box((U7::from(x), U14::from(x), Channel::from(x), U4::from(Channel::from(x))));
            n += 4;
        }
        n
    });
    messages(chk, &calls, tier);
    factories(chk, &calls);
    encoders(chk, &heavy);
    scanner_histories(chk, &heavy, if tier.thorough() { 6 } else { 5 });
    let panics = AtomicU64::new(0);
    documented_panics(chk, &panics);
    crate::c18_extra(chk, tier, &heavy);
    chk.add_eval(calls.load(Ordering::Relaxed) + heavy.load(Ordering::Relaxed) + panics.load(Ordering::Relaxed));
    chk.add_nontrivial(heavy.load(Ordering::Relaxed));
    chk.sample(json!({"region": "integers/U14", "calls": "new, get, 10 From impls, Display and Debug into a stack buffer, parse back, cmp/eq/default for every value; TryFrom across the boundary with error Display", "required": "0 allocations, no unwind"}));
    chk.sample(json!({"region": "documented panic", "call": "ControlChange14BitMessage::new(ch 0, cn 32, 0)", "required": "panics"}));
}
