//! Independent reference for MIDI 1.0 short messages (written from the specification's status
//! table, not from the crate's helpers), foreign implementors of the traits, small helpers.
#![allow(dead_code)]
use core::convert::TryFrom;
use helgoboss_midi::*;

pub fn u7(v: u8) -> U7 {
    U7::try_from(v).expect("harness: u7 out of range")
}
pub fn u4(v: u8) -> U4 {
    U4::try_from(v).expect("harness: u4 out of range")
}
pub fn u14(v: u16) -> U14 {
    U14::try_from(v).expect("harness: u14 out of range")
}
pub fn ch(v: u8) -> Channel {
    Channel::try_from(v).expect("harness: channel out of range")
}
pub fn kn(v: u8) -> KeyNumber {
    KeyNumber::try_from(v).expect("harness: key number out of range")
}
pub fn cn(v: u8) -> ControllerNumber {
    ControllerNumber::try_from(v).expect("harness: controller number out of range")
}

/// Third-party implementor: only the three byte getters (plus the one required factory fn).
#[derive(Clone, Copy, PartialEq, Eq, Debug)]
pub struct Foreign3 {
    pub s: u8,
    pub d1: U7,
    pub d2: U7,
}
impl ShortMessage for Foreign3 {
    fn status_byte(&self) -> u8 {
        self.s
    }
    fn data_byte_1(&self) -> U7 {
        self.d1
    }
    fn data_byte_2(&self) -> U7 {
        self.d2
    }
}
impl ShortMessageFactory for Foreign3 {
    unsafe fn from_bytes_unchecked(b: (u8, U7, U7)) -> Self {
        Foreign3 {
            s: b.0,
            d1: b.1,
            d2: b.2,
        }
    }
}

/// Third-party implementor with a STRICTER `from_bytes` (an input-driver type that refuses the four
/// undefined status bytes): the provided constructors must not depend on overridable methods, so
/// they have to keep working for these status bytes.
#[derive(Clone, Copy, PartialEq, Eq, Debug)]
pub struct ForeignStrict {
    pub s: u8,
    pub d1: U7,
    pub d2: U7,
}
impl ShortMessage for ForeignStrict {
    fn status_byte(&self) -> u8 {
        self.s
    }
    fn data_byte_1(&self) -> U7 {
        self.d1
    }
    fn data_byte_2(&self) -> U7 {
        self.d2
    }
}
impl ShortMessageFactory for ForeignStrict {
    unsafe fn from_bytes_unchecked(b: (u8, U7, U7)) -> Self {
        ForeignStrict { s: b.0, d1: b.1, d2: b.2 }
    }
    fn from_bytes(b: (u8, U7, U7)) -> Result<Self, FromBytesError> {
        if b.0 < 0x80 || matches!(b.0, 0xF4 | 0xF5 | 0xF9 | 0xFD) {
            // the error type has no public constructor: borrow one from the crate
            return Err(RawShortMessage::from_bytes((0, U7::MIN, U7::MIN)).unwrap_err());
        }
        Ok(unsafe { Self::from_bytes_unchecked(b) })
    }
}

/// Third-party implementor whose n-th getter call panics (fault injection: a message type backed by
/// some fallible resource). A scanner that is fed such a message and whose caller catches the
/// unwind must be left in a state it could also have reached without the failure.
pub struct ForeignPanicky {
    pub s: u8,
    pub d1: U7,
    pub d2: U7,
    pub calls: core::cell::Cell<u32>,
    pub panic_at: u32,
}
impl ForeignPanicky {
    fn tick(&self) {
        let n = self.calls.get();
        self.calls.set(n + 1);
        if n == self.panic_at {
            panic!("harness: injected failure in getter call #{}", n);
        }
    }
}
impl ShortMessage for ForeignPanicky {
    fn status_byte(&self) -> u8 {
        self.tick();
        self.s
    }
    fn data_byte_1(&self) -> U7 {
        self.tick();
        self.d1
    }
    fn data_byte_2(&self) -> U7 {
        self.tick();
        self.d2
    }
}

/// Third-party factory whose own `from_bytes` refuses EVERYTHING ("values of this type are only
/// made by its owner"). Nothing the crate provides on top of `from_bytes_unchecked` - named
/// constructors, generic constructors, conversions, the encoders - may depend on the overridable
/// `from_bytes`, so all of them must still work for this type.
#[derive(Clone, Copy, PartialEq, Eq, Debug)]
pub struct ForeignRefusing {
    pub s: u8,
    pub d1: U7,
    pub d2: U7,
}
impl ShortMessage for ForeignRefusing {
    fn status_byte(&self) -> u8 {
        self.s
    }
    fn data_byte_1(&self) -> U7 {
        self.d1
    }
    fn data_byte_2(&self) -> U7 {
        self.d2
    }
}
impl ShortMessageFactory for ForeignRefusing {
    unsafe fn from_bytes_unchecked(b: (u8, U7, U7)) -> Self {
        ForeignRefusing { s: b.0, d1: b.1, d2: b.2 }
    }
    fn from_bytes(_b: (u8, U7, U7)) -> Result<Self, FromBytesError> {
        Err(RawShortMessage::from_bytes((0, U7::MIN, U7::MIN)).unwrap_err())
    }
}

/// Third-party message that is a LIVE VIEW of something that changes: successive calls of
/// `status_byte()` walk through a list of (valid) status bytes. Whatever the crate derives from
/// such a message, no restricted integer it hands out may be out of range.
pub struct ForeignFlaky {
    pub statuses: [u8; 2],
    pub d1: U7,
    pub d2: U7,
    pub calls: core::cell::Cell<u32>,
}
impl ShortMessage for ForeignFlaky {
    fn status_byte(&self) -> u8 {
        let n = self.calls.get();
        self.calls.set(n + 1);
        self.statuses[(n % 2) as usize]
    }
    fn data_byte_1(&self) -> U7 {
        self.d1
    }
    fn data_byte_2(&self) -> U7 {
        self.d2
    }
}

/// Third-party implementor that overrides `to_bytes` (consistently) and stores the bytes packed.
#[derive(Clone, Copy, PartialEq, Eq, Debug)]
pub struct ForeignBytes(pub u32);
impl ShortMessage for ForeignBytes {
    fn status_byte(&self) -> u8 {
        (self.0 >> 16) as u8
    }
    fn data_byte_1(&self) -> U7 {
        u7(((self.0 >> 8) & 0x7f) as u8)
    }
    fn data_byte_2(&self) -> U7 {
        u7((self.0 & 0x7f) as u8)
    }
    fn to_bytes(&self) -> (u8, U7, U7) {
        (
            (self.0 >> 16) as u8,
            u7(((self.0 >> 8) & 0x7f) as u8),
            u7((self.0 & 0x7f) as u8),
        )
    }
}
impl ShortMessageFactory for ForeignBytes {
    unsafe fn from_bytes_unchecked(b: (u8, U7, U7)) -> Self {
        ForeignBytes(((b.0 as u32) << 16) | ((b.1.get() as u32) << 8) | (b.2.get() as u32))
    }
}

#[derive(Clone, Copy, PartialEq, Eq, Debug)]
pub enum Sup {
    Voice,
    Mode,
    Common,
    RealTime,
    Exclusive,
}

/// What the MIDI 1.0 table says about a valid (status >= 0x80) triple.
#[derive(Clone, Debug, PartialEq)]
pub struct Expect {
    pub type_byte: u8,
    pub channel: Option<u8>,
    pub sup: Sup,
    pub is_channel: bool,
    pub key: Option<u8>,
    pub vel: Option<u8>,
    pub ctrl: Option<u8>,
    pub cval: Option<u8>,
    pub prog: Option<u8>,
    pub pressure: Option<u8>,
    pub bend: Option<u16>,
    pub is_note: bool,
    pub note_on: bool,
    pub note_off: bool,
    pub canon: (u8, u8, u8),
}

pub fn canon(s: u8, d1: u8, d2: u8) -> (u8, u8, u8) {
    match s {
        0x80..=0xBF | 0xE0..=0xEF | 0xF2 => (s, d1, d2),
        0xC0..=0xDF | 0xF3 => (s, d1, 0),
        0xF1 => {
            if d1 >= 0x70 {
                (s, d1 & 0b1110111, 0)
            } else {
                (s, d1, 0)
            }
        }
        _ => (s, 0, 0),
    }
}

pub fn expect(s: u8, d1: u8, d2: u8) -> Expect {
    assert!(s >= 0x80 && d1 < 128 && d2 < 128);
    let hi = s >> 4;
    let is_channel = hi < 0xF;
    let type_byte = if is_channel { s & 0xF0 } else { s };
    let mut e = Expect {
        type_byte,
        channel: if is_channel { Some(s & 0x0F) } else { None },
        sup: Sup::Voice,
        is_channel,
        key: None,
        vel: None,
        ctrl: None,
        cval: None,
        prog: None,
        pressure: None,
        bend: None,
        is_note: false,
        note_on: false,
        note_off: false,
        canon: canon(s, d1, d2),
    };
    match hi {
        0x8 => {
            e.key = Some(d1);
            e.vel = Some(d2);
            e.is_note = true;
            e.note_off = true;
        }
        0x9 => {
            e.key = Some(d1);
            e.vel = Some(d2);
            e.is_note = true;
            e.note_on = d2 > 0;
            e.note_off = d2 == 0;
        }
        0xA => {
            e.key = Some(d1);
            e.pressure = Some(d2);
        }
        0xB => {
            e.ctrl = Some(d1);
            e.cval = Some(d2);
            if d1 >= 120 {
                e.sup = Sup::Mode;
            }
        }
        0xC => e.prog = Some(d1),
        0xD => e.pressure = Some(d1),
        0xE => e.bend = Some((d2 as u16) * 128 + d1 as u16),
        _ => {
            e.sup = match s {
                0xF0 => Sup::Exclusive,
                0xF1..=0xF7 => Sup::Common,
                _ => Sup::RealTime,
            };
        }
    }
    e
}

pub fn sup_of(m: MessageSuperType) -> Sup {
    match m {
        MessageSuperType::ChannelVoice => Sup::Voice,
        MessageSuperType::ChannelMode => Sup::Mode,
        MessageSuperType::SystemCommon => Sup::Common,
        MessageSuperType::SystemRealTime => Sup::RealTime,
        MessageSuperType::SystemExclusive => Sup::Exclusive,
    }
}

pub fn expected_frame(d1: u8) -> TimeCodeQuarterFrame {
    use TimeCodeQuarterFrame::*;
    let lo = u4(d1 & 0x0F);
    match d1 >> 4 {
        0 => FrameCountLsNibble(lo),
        1 => FrameCountMsNibble(lo),
        2 => SecondsCountLsNibble(lo),
        3 => SecondsCountMsNibble(lo),
        4 => MinutesCountLsNibble(lo),
        5 => MinutesCountMsNibble(lo),
        6 => HoursCountLsNibble(lo),
        7 => Last {
            hours_count_ms_bit: d1 & 1 == 1,
            time_code_type: match (d1 >> 1) & 3 {
                0 => TimeCodeType::Fps24,
                1 => TimeCodeType::Fps25,
                2 => TimeCodeType::Fps30DropFrame,
                _ => TimeCodeType::Fps30NonDrop,
            },
        },
        _ => unreachable!("harness: d1 < 128"),
    }
}

/// The structured value the table prescribes for a valid triple.
pub fn expected_structured(s: u8, d1: u8, d2: u8) -> StructuredShortMessage {
    use StructuredShortMessage as M;
    let c = ch(s & 0x0F);
    match s {
        0x80..=0x8F => M::NoteOff {
            channel: c,
            key_number: kn(d1),
            velocity: u7(d2),
        },
        0x90..=0x9F => M::NoteOn {
            channel: c,
            key_number: kn(d1),
            velocity: u7(d2),
        },
        0xA0..=0xAF => M::PolyphonicKeyPressure {
            channel: c,
            key_number: kn(d1),
            pressure_amount: u7(d2),
        },
        0xB0..=0xBF => M::ControlChange {
            channel: c,
            controller_number: cn(d1),
            control_value: u7(d2),
        },
        0xC0..=0xCF => M::ProgramChange {
            channel: c,
            program_number: u7(d1),
        },
        0xD0..=0xDF => M::ChannelPressure {
            channel: c,
            pressure_amount: u7(d1),
        },
        0xE0..=0xEF => M::PitchBendChange {
            channel: c,
            pitch_bend_value: u14((d2 as u16) * 128 + d1 as u16),
        },
        0xF0 => M::SystemExclusiveStart,
        0xF1 => M::TimeCodeQuarterFrame(expected_frame(d1)),
        0xF2 => M::SongPositionPointer {
            position: u14((d2 as u16) * 128 + d1 as u16),
        },
        0xF3 => M::SongSelect {
            song_number: u7(d1),
        },
        0xF4 => M::SystemCommonUndefined1,
        0xF5 => M::SystemCommonUndefined2,
        0xF6 => M::TuneRequest,
        0xF7 => M::SystemExclusiveEnd,
        0xF8 => M::TimingClock,
        0xF9 => M::SystemRealTimeUndefined1,
        0xFA => M::Start,
        0xFB => M::Continue,
        0xFC => M::Stop,
        0xFD => M::SystemRealTimeUndefined2,
        0xFE => M::ActiveSensing,
        0xFF => M::SystemReset,
        _ => unreachable!("harness: valid status only"),
    }
}

pub const VALID_TYPE_BYTES: [u8; 23] = [
    0x80, 0x90, 0xA0, 0xB0, 0xC0, 0xD0, 0xE0, 0xF0, 0xF1, 0xF2, 0xF3, 0xF4, 0xF5, 0xF6, 0xF7, 0xF8,
    0xF9, 0xFA, 0xFB, 0xFC, 0xFD, 0xFE, 0xFF,
];

pub fn type_from_byte(b: u8) -> ShortMessageType {
    ShortMessageType::try_from(b).expect("harness: valid type byte")
}

/// Range audit used by every sweep and exploration: a restricted integer handed out by the
/// crate must be within its documented range (C04 clause "fields and data bytes of messages
/// produced by factories, encoders and scanners").
pub fn in_range_u7(v: U7) -> bool {
    v.get() <= 127
}
pub fn in_range_u14(v: U14) -> bool {
    v.get() <= 16383
}
pub fn in_range_ch(v: Channel) -> bool {
    v.get() <= 15
}
pub fn in_range_cn(v: ControllerNumber) -> bool {
    v.get() <= 127
}
pub fn in_range_kn(v: KeyNumber) -> bool {
    v.get() <= 127
}

/// All raw bytes of a message are in range.
pub fn bytes_in_range<M: ShortMessage>(m: &M) -> bool {
    m.status_byte() >= 0x80 && in_range_u7(m.data_byte_1()) && in_range_u7(m.data_byte_2())
}

pub fn raw(s: u8, d1: u8, d2: u8) -> RawShortMessage {
    RawShortMessage::from_bytes((s, u7(d1), u7(d2))).expect("harness: valid status")
}

pub fn cc(channel: u8, controller: u8, value: u8) -> RawShortMessage {
    raw(0xB0 | channel, controller, value)
}
