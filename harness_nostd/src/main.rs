//! `hm` — harness binary for configuration B: helgoboss-midi built with default-features = false
//! (the crate itself is `no_std`; the harness around it uses std).
#[path = "../../common/ints.rs"]
mod ints;
#[path = "../../common/rt.rs"]
mod rt;
#[path = "../../common/midi.rs"]
mod midi;
#[path = "../../common/msgs.rs"]
mod msgs;
#[path = "../../common/scan.rs"]
mod scan;
#[path = "../../common/cc14.rs"]
mod cc14;

pub fn c18_extra(_chk: &Check, _tier: Tier, _heavy: &std::sync::atomic::AtomicU64) {}

use xs::{Check, Tier};

#[global_allocator]
static ALLOC: xs::alloc::Counting = xs::alloc::Counting;

pub const PART: &str = "nostd";

fn main() {
    xs::silence_panics();
    let args: Vec<String> = std::env::args().collect();
    if args.len() >= 3 && args[1] == "unwind-probe" {
        msgs::unwind_probe_child(&args[2]);
    }
    if args.len() < 2 {
        eprintln!("usage: hm <ID> [--tier quick|thorough]");
        std::process::exit(2);
    }
    let mut tier = Tier::Quick;
    if let Some(i) = args.iter().position(|a| a == "--tier") {
        tier = args.get(i + 1).and_then(|t| Tier::parse(t)).unwrap_or(Tier::Quick);
    }
    if tier == Tier::Quick {
        std::env::set_var("XS_MAX_WALL_S", "120");
        std::env::set_var("XS_MAX_STATES", "3000000");
    }
    let code = match args[1].as_str() {
        "C04" => {
            let chk = Check::new("C04", PART, tier, "exploration");
            ints::run_c04(&chk, tier);
            chk.finish()
        }
        "C05" => {
            let chk = Check::new("C05", PART, tier, "exploration");
            ints::run_c05(&chk, tier);
            chk.finish()
        }
        "C01" => {
            let chk = Check::new("C01", PART, tier, "exploration");
            msgs::run_c01(&chk);
            chk.finish()
        }
        "C02" => {
            let chk = Check::new("C02", PART, tier, "exploration");
            msgs::run_c02(&chk);
            chk.finish()
        }
        "C03" => {
            let chk = Check::new("C03", PART, tier, "exploration");
            msgs::run_c03_sweep(&chk);
            chk.finish()
        }
        "C06" => {
            let chk = Check::new("C06", PART, tier, "exploration");
            msgs::run_c06(&chk);
            chk.finish()
        }
        "C07" => {
            let chk = Check::new("C07", PART, tier, "model_checking");
            cc14::run_c07_nostd(&chk);
            chk.finish()
        }
        "C18" => {
            let part = if cfg!(debug_assertions) { "nostd-debug" } else { PART };
            let chk = Check::new("C18", part, tier, "exploration");
            rt::run_c18(&chk, tier);
            chk.finish()
        }
        other => {
            eprintln!("unknown check {}", other);
            2
        }
    };
    std::process::exit(code);
}
